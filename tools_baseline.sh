#!/bin/sh
# Runs the repository's baseline test suite (there are no source hooks, so the guard is trivially OFF)
# and compares the result with /root/.vp/BASELINE.json.   usage: tools_baseline.sh [junit-out]
OUT=${1:-/tmp/pw_baseline_junit.xml}
cd /repo && /venv/bin/python -m pytest -ra -q -p no:cacheprovider --timeout=900 --continue-on-collection-errors --junitxml="$OUT" >/dev/null 2>&1
/venv/bin/python - "$OUT" <<'PY'
import json, sys, xml.etree.ElementTree as ET
base = json.load(open('/root/.vp/BASELINE.json'))
want = set(base['stable_pass'])
t = ET.parse(sys.argv[1])
passed = set()
for tc in t.iter('testcase'):
    name = tc.get('classname') + '::' + tc.get('name')
    if not any(ch.tag in ('failure', 'error', 'skipped') for ch in tc):
        passed.add(name)
missing = sorted(want - passed)
print(f"baseline: {len(want & passed)}/{len(want)} stable tests pass; newly passing: {len(passed - want)}")
for m in missing:
    print("  MISSING", m)
sys.exit(1 if missing else 0)
PY
