"""debug helper: python tools_dbg.py <Cxx> <case-id> : runs one case in-process and prints every path"""
import sys, json
sys.path.insert(0, '/verif'); 
from symx import runner
runner._setup_sym_path()
import importlib
pid, cid = sys.argv[1], sys.argv[2]
mod = importlib.import_module(f'harness.{pid}')
tier = sys.argv[3] if len(sys.argv) > 3 else 'quick'
case = [c for c in mod.cases(tier) if c['id'] == cid][0]
opts = dict(getattr(mod, 'OPTS', {}).get(tier, {}))
r = runner.run_case((pid, case, opts))
for k in ('paths', 'status', 'flags', 'truncated', 'wall_s', 'tot'):
    print(k, r.get(k))
for e in r['errors']:
    print('ERROR', json.dumps(e)[:3000])
for v in r['violations']:
    print('VIOL', v['label'], '|', v['kind'], '|', v['decisions'], '|', (v.get('path_error') or '')[:1500])
for e in r['events'][:20]:
    print('EVENT', e)
