#!/bin/sh
# Builds the overlay virtualenv the checks run in (offline; idempotent).
#   /verif/.venv = python of /venv + /venv's site-packages (jax, numpy, scipy: the repo's own deps)
#                  + z3-solver, cvc5, crosshair-tool from the offline wheelhouse.
# Called by MANIFEST.setup_cmd and, if .venv is missing, by ./check itself.
set -e
cd "$(dirname "$0")"
VENV=/verif/.venv
LOCK=/tmp/.verif_setup.lock
exec 9>"$LOCK"
flock 9
if [ -x "$VENV/bin/python" ] && "$VENV/bin/python" -c "import z3, numpy, jax" >/dev/null 2>&1; then
    echo "setup: overlay venv present"
else
    rm -rf "$VENV"
    /venv/bin/python -m venv "$VENV"
    SP=$("$VENV/bin/python" -c "import sysconfig; print(sysconfig.get_paths()['purelib'])")
    echo "import site; site.addsitedir('/venv/lib/python3.12/site-packages')" > "$SP/zz_repo_env.pth"
    PIP_NO_INDEX=1 "$VENV/bin/python" -m pip install -q --no-index --find-links /opt/veriftools/wheels z3-solver
    # optional extras (second solver, CrossHair engine); the checks degrade gracefully without them
    PIP_NO_INDEX=1 "$VENV/bin/python" -m pip install -q --no-index --find-links /opt/veriftools/wheels cvc5 crosshair-tool || echo "setup: optional wheels not installed"
    echo "setup: overlay venv built"
fi
"$VENV/bin/python" -c "import z3, numpy, jax; print('setup: z3', z3.get_version_string(), 'numpy', numpy.__version__, 'jax', jax.__version__)"
