#!/bin/sh
# usage: tools_seedrun.sh <seed-id> <property-id> [extra check args]
# applies /verif/seeded/<seed-id>/patch.diff to /repo, runs the check, restores /repo. Prints the check's exit code.
SID=$1; PID=$2; shift 2
cd /repo && git diff --quiet || { echo "/repo has uncommitted changes"; exit 9; }
git -C /repo apply /verif/seeded/$SID/patch.diff || { echo "patch does not apply"; exit 9; }
cd /verif && SYMX_EVIDENCE_DIR=/var/tmp/seed_ev ./check $PID "$@" > /verif/.scratch/seed_${SID}_${PID}.out 2>&1; RC=$?
git -C /repo checkout -- .
grep -E "^VIOLATION|^KNOWN|^HARNESS|^INCONCL" /verif/.scratch/seed_${SID}_${PID}.out | cut -c1-220 | head -8
tail -1 /verif/.scratch/seed_${SID}_${PID}.out | cut -c1-300
echo "seed=$SID check=$PID exit=$RC"
