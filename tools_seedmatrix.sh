#!/bin/sh
# Runs every seeded change against the check of the property it breaks (quick tier) and writes seeded/RESULTS.tsv:
#   seed  property  applies  exit-code  first VIOLATION line
# /repo is never touched: each patch is applied to a scratch worktree under /var/tmp which the check reads through
# PW_REPO; JOBS seeds run side by side (default 3).  Some seeds are (also) caught by the check of ANOTHER property; that
# is recorded in meta.json "caught_by" and used here instead of "property" when present.
cd /verif
OUT=seeded/RESULTS.tsv
JOBS=${JOBS:-3}
mkdir -p .scratch/matrix
rm -f .scratch/matrix/*.row
one() {
  d=$1
  SID=$(basename $d)
  PID=$(python3 -c "import json;m=json.load(open('$d/meta.json'));print(m.get('caught_by') or m['property'])")
  WT=/var/tmp/seedwt_m_$SID
  if git -C $WT apply /verif/$d/patch.diff 2>/dev/null; then
    PW_REPO=$WT SYMX_EVIDENCE_DIR=/var/tmp/seed_ev_m_$SID ./check $PID --tier quick > .scratch/matrix/${SID}.out 2>&1; RC=$?
    V=$(grep -m1 "^VIOLATION" .scratch/matrix/${SID}.out | sed -e 's/.*json  //' | cut -c1-160)
    printf "%s\t%s\tyes\t%s\t%s\n" $SID $PID $RC "$V" > .scratch/matrix/$SID.row
  else
    printf "%s\t%s\tno\t-\tpatch does not apply to the current tree\n" $SID $PID > .scratch/matrix/$SID.row
  fi
  git -C /repo worktree remove --force $WT
  rm -rf /var/tmp/seed_ev_m_$SID
}
N=0
for d in seeded/*/; do
  WT=/var/tmp/seedwt_m_$(basename $d)
  rm -rf $WT; git -C /repo worktree prune; git -C /repo worktree add -q --detach $WT HEAD
  one $d &
  N=$((N+1))
  if [ $((N % JOBS)) -eq 0 ]; then wait; fi
done
wait
printf "seed\tproperty\tapplies\texit\tdetail\n" > $OUT
cat .scratch/matrix/*.row >> $OUT
cat $OUT
