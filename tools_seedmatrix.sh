#!/bin/sh
# Runs every seeded change against the check of the property it breaks (quick tier) and writes seeded/RESULTS.tsv:
#   seed  property  applies  exit-code  first VIOLATION line
# /repo must be clean; each patch is applied, the check is run, and /repo is restored.
cd /verif
OUT=seeded/RESULTS.tsv
printf "seed\tproperty\tapplies\texit\tdetail\n" > $OUT
for d in seeded/*/; do
  SID=$(basename $d)
  PID=$(python3 -c "import json;print(json.load(open('$d/meta.json'))['property'])")
  if ! git -C /repo diff --quiet; then echo "/repo dirty"; exit 9; fi
  if git -C /repo apply --check /verif/$d/patch.diff 2>/dev/null; then
    git -C /repo apply /verif/$d/patch.diff
    SYMX_EVIDENCE_DIR=/var/tmp/seed_ev ./check $PID --tier quick > .scratch/matrix_${SID}.out 2>&1; RC=$?
    git -C /repo checkout -- .
    V=$(grep -m1 "^VIOLATION" .scratch/matrix_${SID}.out | sed -e 's/.*json  //' | cut -c1-160)
    printf "%s\t%s\tyes\t%s\t%s\n" $SID $PID $RC "$V" >> $OUT
  else
    printf "%s\t%s\tno\t-\tpatch does not apply to the current tree\n" $SID $PID >> $OUT
  fi
done
cat $OUT
