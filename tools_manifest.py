"""Regenerates MANIFEST.json from the per-property descriptions below (keeps it valid at all times)."""
import json
import os

HERE = os.path.dirname(os.path.abspath(__file__))

TECH = ("bounded symbolic execution of the real photon_weave source under an SMT-backed model of jax "
        "(symx: polynomial terms, z3 nlsat + cvc5), obligations vs an independent dense reference, "
        "counterexamples replayed on real JAX")
NOTE = ("Relative to: the symx model of jax.numpy (validated per run: witness traces re-executed under real JAX), "
        "the dense reference model, z3 5.1 / cvc5 1.4; reals not floats; structure (layouts, dimensions, entry points, "
        "operation types) enumerated as the stated bound; eigh-based contraction cut.")

CHECKS = {}  # filled from checks_meta.json
meta = json.load(open(os.path.join(HERE, "checks_meta.json")))

checks = []
for pid in sorted(meta["claimed"]):
    m = meta["claimed"][pid]
    checks.append({
        "property_id": pid,
        "quick_cmd": f"./check {pid} --tier quick",
        "thorough_cmd": f"./check {pid} --tier thorough",
        "evidence_file": f"/verif/evidence/{pid}.json",
        "replay_cmd_template": f"./check {pid} --replay {{path}}",
        "engine": m.get("engine", "symx"),
        "level_claimed": {"category": "model_checking", "text": m["text"], "design_ref": m.get("design_ref", "DESIGN.md section 7")},
        "level_note": m.get("note", NOTE),
        "technique": m.get("technique", TECH),
    })

manifest = {
    "version": 1,
    "setup_cmd": "sh /verif/setup.sh",
    "hooks": {
        "guard": "PHOTON_WEAVE_VERIF",
        "enable": "no source hooks: the checks substitute the environment (a model of the jax package placed first on sys.path) "
                  "and patch two module globals from the harness side; PHOTON_WEAVE_VERIF is reserved and unused",
        "baseline_off_cmd": "sh /verif/tools_baseline.sh",
        "source_commits": [],
        "add_only": True,
    },
    "engines": [
        {"name": "symx", "path": "/verif/symx", "serves_properties": sorted(meta["claimed"]),
         "kind_free_text": "symbolic execution of the unmodified Python source with a solver-backed jax model; z3 + cvc5"},
        {"name": "crosshair", "path": "/verif/ch", "serves_properties": ["C02", "C03", "C10", "C16"],
         "kind_free_text": "CrossHair 0.0.110 (symbolic execution of Python with z3): the interpreter's dispatch with a symbolic str "
                           "(C16), the einsum string generators with symbolic sizes / positions / permutations (C02, C03), label-level "
                           "Fock.resize and automatic dimensions with symbolic integers (C10)"},
    ],
    "checks": checks,
    "not_applicable": [{"property_id": k, "reason": v} for k, v in sorted(meta["not_applicable"].items())],
    "notes": meta.get("notes", ""),
}
json.dump(manifest, open(os.path.join(HERE, "MANIFEST.json"), "w"), indent=1)
print("MANIFEST.json written:", len(checks), "checks,", len(manifest["not_applicable"]), "not applicable")
