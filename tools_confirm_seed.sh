#!/bin/sh
# usage: tools_confirm_seed.sh <seed-id> <src-dir with patch.diff demo.py notes.md> <property-id>
# Confirms a seeded change in a scratch worktree: demo passes without / fails with the patch, the 180 baseline tests
# still pass with the patch. Writes /verif/seeded/<seed-id>/{patch.diff,demo.py,notes.md,meta.json}.
set -e
SID=$1; SRC=$2; PID=$3
WT=/tmp/confirm_$SID
rm -rf $WT; git -C /repo worktree prune; git -C /repo worktree add -q --detach $WT HEAD
mkdir -p /verif/seeded/$SID
cp $SRC/patch.diff /verif/seeded/$SID/patch.diff
cp $SRC/demo.py /verif/seeded/$SID/demo.py
[ -f $SRC/notes.md ] && cp $SRC/notes.md /verif/seeded/$SID/notes.md
cd $WT
set +e
PYTHONPATH=$WT /venv/bin/python /verif/seeded/$SID/demo.py > /tmp/confirm_$SID.clean.log 2>&1; CLEAN=$?
git apply /verif/seeded/$SID/patch.diff || { echo "patch does not apply"; exit 3; }
PYTHONPATH=$WT /venv/bin/python /verif/seeded/$SID/demo.py > /tmp/confirm_$SID.mut.log 2>&1; MUT=$?
/venv/bin/python -m pytest -q -p no:cacheprovider --timeout=900 --continue-on-collection-errors --junitxml=/tmp/confirm_$SID.junit.xml > /dev/null 2>&1
/venv/bin/python - $SID $PID $CLEAN $MUT <<'PY'
import json, sys, xml.etree.ElementTree as ET, subprocess
sid, pid, clean, mut = sys.argv[1], sys.argv[2], int(sys.argv[3]), int(sys.argv[4])
base = json.load(open('/root/.vp/BASELINE.json'))
want = set(base['stable_pass'])
t = ET.parse(f'/tmp/confirm_{sid}.junit.xml')
passed = set()
for tc in t.iter('testcase'):
    name = tc.get('classname') + '::' + tc.get('name')
    if not any(ch.tag in ('failure', 'error', 'skipped') for ch in tc):
        passed.add(name)
missing = sorted(want - passed)
head = subprocess.check_output(['git', '-C', '/repo', 'rev-parse', 'HEAD']).decode().strip()
meta = {"seed": sid, "property": pid, "repo_head_when_confirmed": head,
        "demo_exit_without_patch": clean, "demo_exit_with_patch": mut,
        "baseline_stable_tests_passing_with_patch": len(want & passed), "baseline_missing": missing,
        "confirmed": clean == 0 and mut != 0 and not missing,
        "ran": ["git worktree add (scratch)", "demo.py on the clean tree", "git apply patch.diff", "demo.py with the patch",
                "full pytest run with the patch compared with BASELINE.json stable_pass"]}
json.dump(meta, open(f'/verif/seeded/{sid}/meta.json', 'w'), indent=1)
print(json.dumps(meta))
PY
cd /; git -C /repo worktree remove --force $WT
