#!/bin/sh
# usage: tools_seedrun_par.sh <seed-id> <property-id> [extra check args]
# like tools_seedrun.sh but never touches /repo: the patch is applied to a scratch worktree under /var/tmp and the check
# reads it through PW_REPO, so several seeds can be run side by side.  Evidence / replays of these runs go to scratch dirs.
SID=$1; PID=$2; shift 2
WT=/var/tmp/seedwt_${SID}_$PID
rm -rf $WT; git -C /repo worktree prune; git -C /repo worktree add -q --detach $WT HEAD || exit 9
git -C $WT apply /verif/seeded/$SID/patch.diff || { echo "patch does not apply"; exit 9; }
mkdir -p /verif/.scratch
cd /verif && PW_REPO=$WT SYMX_EVIDENCE_DIR=/var/tmp/seed_ev_${SID} ./check $PID "$@" > /verif/.scratch/seed_${SID}_${PID}.out 2>&1; RC=$?
git -C /repo worktree remove --force $WT
grep -E "^VIOLATION|^KNOWN|^HARNESS|^INCONCL" /verif/.scratch/seed_${SID}_${PID}.out | cut -c1-220 | head -6
tail -1 /verif/.scratch/seed_${SID}_${PID}.out | cut -c1-300
echo "seed=$SID check=$PID exit=$RC"
