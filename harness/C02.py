"""C02 - product-space management never changes the physics.

One structural case = prior layout x one structural call (Envelope.combine / reorder / expand,
CompositeEnvelope.combine / reorder / expand / merge, ProductState.reorder, and the partial-trace queries at the
three entry points) x its argument tuple.  Block contents are symbolic.
Assertions: (a) the joint density matrix of every component of the storage partition is the same before and after
the call (state vectors up to a global phase while everything is pure-level); (b) for trace_out the returned array
equals the reference partial trace of the pre-state over exactly the requested subsystems in the requested order
(a returned column vector v is read as the pure state |v><v|); (c) WF(post)."""
import itertools

from symx import checks, ref
from harness import common as cm

ASSUMPTIONS = [
    "reals, not floats; contraction off; Matrix->Vector contraction (eigh) is not exercised (cut, see C08)",
    "structure (layouts, argument tuples) is the enumerated bound; contents of every vector/matrix block are symbolic",
    "a partial trace returned as a (d,1) column is interpreted as the pure state |v><v|",
    "engine E2 (CrossHair): reorder_vector/_matrix (all permutations of n <= 4), trace_out_matrix (all subsets, n <= 4), "
    "measure/trace_out_vector (n <= 5) with symbolic arguments, per-condition timeout 90 s",
]
BOUNDS = {
    "quick": "<=2 envelopes (Fock cut-off 2) + <=1 custom (dim 2); blocks of <=4 members; every ordered argument subset of size "
             "<=3 for composite combine/reorder/trace_out on the listed layouts; vector and matrix level",
    "thorough": "as quick with Fock cut-off 3 in one envelope, 3 envelopes for combine/merge, all argument subsets",
}
OPTS = {"quick": {"max_paths": 32, "timeout_ms": 10000, "case_timeout_s": 900},
        "thorough": {"max_paths": 64, "timeout_ms": 30000, "case_timeout_s": 3000}}


def _ce_layouts(tier):
    """prior partitions of {f0,p0,f1,p1,c0} inside one composite"""
    S = cm.subs(2, 1, 2, 2)
    comp = [["e0", "e1", "c0"]]
    L = {}
    L["own"] = cm.world(S, [{"kind": "own", "sub": "p0", "level": "V"}, {"kind": "own", "sub": "p1", "level": "V"},
                            {"kind": "own", "sub": "c0", "level": "V"}, {"kind": "own", "sub": "f0", "level": "V"}], comp)
    L["own-mixedlevels"] = cm.world(S, [{"kind": "own", "sub": "p0", "level": "M"}, {"kind": "own", "sub": "p1", "level": "V"},
                                        {"kind": "own", "sub": "c0", "level": "L", "label": 1}], comp)
    L["envPF+own"] = cm.world(S, [{"kind": "env", "env": "e0", "order": "PF", "level": "V"},
                                  {"kind": "own", "sub": "p1", "level": "V"}, {"kind": "own", "sub": "c0", "level": "V"}], comp)
    L["envFP-M+own"] = cm.world(S, [{"kind": "env", "env": "e0", "order": "FP", "level": "M"},
                                    {"kind": "own", "sub": "p1", "level": "V"}], comp)
    L["ps[p1,c0,p0]-V"] = cm.world(S, [{"kind": "ps", "ce": 0, "members": ["p1", "c0", "p0"], "level": "V"},
                                       {"kind": "own", "sub": "f0", "level": "V"}], comp)
    L["ps[p0,c0]+ps[f1,p1]-V"] = cm.world(S, [{"kind": "ps", "ce": 0, "members": ["p0", "c0"], "level": "V"},
                                              {"kind": "ps", "ce": 0, "members": ["f1", "p1"], "level": "V"}], comp)
    L["ps[c0,p1,p0]-M"] = cm.world(S, [{"kind": "ps", "ce": 0, "members": ["c0", "p1", "p0"], "level": "M"}], comp)
    L["ps[p0,p1]-M+ps[c0,f1]-V"] = cm.world(S, [{"kind": "ps", "ce": 0, "members": ["p0", "p1"], "level": "M"},
                                                {"kind": "ps", "ce": 0, "members": ["c0", "f1"], "level": "V"}], comp)
    L["ps[f0,p1,c0,p0]-V"] = cm.world(S, [{"kind": "ps", "ce": 0, "members": ["f0", "p1", "c0", "p0"], "level": "V"}], comp)
    return L


def cases(tier):
    out = []
    thorough = tier == "thorough"
    dF = 2
    # A. Envelope.combine from every pair of member levels
    for lF in ("L", "V", "M"):
        for lP in ("L", "V", "M"):
            blocks = []
            blocks.append({"kind": "own", "sub": "f0", "level": lF, "label": 1})
            blocks.append({"kind": "own", "sub": "p0", "level": lP, "label": "R"})
            w = cm.world(cm.subs(1, 0, 3 if thorough else dF), blocks)
            out.append({"id": f"env.combine/{lF}{lP}", "world": w, "action": "env.combine", "env": "e0", "args": []})
    # B. Envelope.reorder / expand
    for order in ("FP", "PF"):
        for lvl in ("V", "M"):
            w = cm.world(cm.subs(1, 0, 3 if thorough else dF), [{"kind": "env", "env": "e0", "order": order, "level": lvl}])
            for args in (["p0", "f0"], ["f0", "p0"], ["p0"], ["f0"]):
                out.append({"id": f"env.reorder/{order}-{lvl}/{','.join(args)}", "world": w, "action": "env.reorder",
                            "env": "e0", "args": args})
            if lvl == "V":
                out.append({"id": f"env.expand/{order}-{lvl}", "world": w, "action": "env.expand", "env": "e0", "args": []})
            # partial traces through the envelope and through the members
            for args in (["p0"], ["f0"], ["p0", "f0"], ["f0", "p0"]):
                out.append({"id": f"env.trace_out/{order}-{lvl}/{','.join(args)}", "world": w, "action": "env.trace_out",
                            "env": "e0", "args": args})
            for a in ("p0", "f0"):
                out.append({"id": f"state.trace_out/{order}-{lvl}/{a}", "world": w, "action": "state.trace_out", "args": [a]})
    for lF, lP in (("V", "V"), ("L", "V"), ("V", "M")):
        w = cm.world(cm.subs(1, 0, dF), [{"kind": "own", "sub": "f0", "level": lF, "label": 1},
                                        {"kind": "own", "sub": "p0", "level": lP, "label": "L"}])
        out.append({"id": f"env.expand/E0-{lF}{lP}", "world": w, "action": "env.expand", "env": "e0", "args": []})
        out.append({"id": f"env.trace_out/E0-{lF}{lP}/f0,p0", "world": w, "action": "env.trace_out", "env": "e0",
                    "args": ["f0", "p0"]})
    # C. composite: combine / reorder / trace_out over ordered argument subsets
    L = _ce_layouts(tier)
    pool = ["p0", "p1", "c0", "f0"]
    subsets = []
    for k in (1, 2, 3):
        for t in itertools.permutations(pool, k):
            subsets.append(list(t))
    quick_subsets = [["p0", "p1"], ["p1", "p0"], ["c0", "p0"], ["p0", "c0", "p1"], ["p1", "p0", "c0"], ["f0", "p1"],
                     ["c0"], ["p1"], ["f0", "p0"], ["c0", "p1", "p0"]]
    for lid, w in L.items():
        present = {b.get("sub") for b in w["blocks"]} | {m for b in w["blocks"] for m in b.get("members", [])}
        if any(b["kind"] == "env" for b in w["blocks"]):
            present |= {"f0", "p0"}
        for args in (subsets if thorough else quick_subsets):
            # combine: any subset of the composite's subsystems (label-level subsystems are expanded by combine)
            if len(args) >= 2:
                out.append({"id": f"ce.combine/{lid}/{','.join(args)}", "world": w, "action": "ce.combine", "args": args})
            # trace_out needs at least one argument stored in a product space (documented precondition)
            in_ps = {m for b in w["blocks"] if b["kind"] == "ps" for m in b["members"]}
            if any(a in in_ps for a in args) and all(a in present for a in args):
                out.append({"id": f"ce.trace_out/{lid}/{','.join(args)}", "world": w, "action": "ce.trace_out", "args": args})
                if all(a in in_ps for a in args):
                    out.append({"id": f"ce.reorder/{lid}/{','.join(args)}", "world": w, "action": "ce.reorder", "args": args})
            if len(args) == 1 and args[0] in in_ps:
                out.append({"id": f"state.trace_out/{lid}/{args[0]}", "world": w, "action": "state.trace_out", "args": args})
                out.append({"id": f"ce.expand/{lid}/{args[0]}", "world": w, "action": "ce.expand", "args": args})
    # D. ProductState.reorder with full permutations
    for lvl in ("V", "M"):
        mem = ["p1", "c0", "p0"]
        w = cm.world(cm.subs(2, 1, 2, 2), [{"kind": "ps", "ce": 0, "members": mem, "level": lvl}], [["e0", "e1", "c0"]])
        for perm in itertools.permutations(mem):
            out.append({"id": f"ps.reorder/{lvl}/{','.join(perm)}", "world": w, "action": "ps.reorder", "args": list(perm)})
    # E. merging composite envelopes, then combining across the former boundary
    S = cm.subs(2, 1, 2, 2)
    for lvl in ("V", "M"):
        w = cm.world(S, [{"kind": "ps", "ce": 0, "members": ["p0", "c0"], "level": lvl},
                         {"kind": "ps", "ce": 1, "members": ["p1", "f1"], "level": "V"}], [["e0", "c0"], ["e1"]])
        out.append({"id": f"ce.merge/{lvl}/only", "world": w, "action": "ce.merge", "args": []})
        out.append({"id": f"ce.merge/{lvl}/then-combine-p1,p0", "world": w, "action": "ce.merge", "args": ["p1", "p0"]})
        out.append({"id": f"ce.merge/{lvl}/then-trace_out-p1,c0", "world": w, "action": "ce.merge+trace_out", "args": ["p1", "c0"]})
    # engine E2: reorder / partial-trace / measure string generators with symbolic sizes, permutations and subsets
    for fn in ("reorder_vector_ok", "reorder_matrix_ok", "trace_out_matrix_ok", "measure_and_trace_vector_ok"):
        out.append({"id": f"crosshair/{fn}", "action": "crosshair", "fn": fn, "world": None, "args": []})
    return out


def _as_density(B, arr):
    a = B.np(arr)
    if a.ndim == 2 and a.shape[1] == 1 and a.shape[0] != 1:
        return ref.outer(a)
    if a.ndim == 2 and a.shape == (1, 1):
        return ref.outer(a)
    return a


def _check_trace_out(B, W, pre, got, subs_, label):
    """got == partial trace of the pre-state over everything but subs_, in that order"""
    comps = checks.components(pre, pre, force_together=subs_)
    comp = [c for c in comps if any(m is subs_[0] for m in c)][0]
    rho, dims = pre.joint(comp)
    keep = [[id(m) for m in comp].index(id(s)) for s in subs_]
    want, _ = ref.partial_trace(rho, dims, keep)
    h = W.h
    if isinstance(got, (int, h.PolarizationLabel)) and not hasattr(got, "shape"):
        # label returned for an uncombined label-level subsystem
        o = subs_[0]
        if isinstance(got, h.PolarizationLabel):
            g = ref.outer(B.pol_label_vector(got.value))
        else:
            g = ref.outer(ref.ket(int(got), int(o.dimensions), B.like()))
    else:
        g = _as_density(B, got)
    if tuple(g.shape) != tuple(want.shape):
        B.require_structural(False, f"{label}: returned shape {tuple(B.np(got).shape)}, reduced state is {tuple(want.shape)}")
        return
    if hasattr(B, "observed"):
        B.observed["trace_out"] = g
    EL = h.ExpansionLevel
    blocks = [b for b in pre.blocks if any(any(m is c for c in comp) for m in b.members)]
    src = "vector-level" if all(b.level in (EL.Label, EL.Vector) for b in blocks) else "matrix-level"
    traced = len(comp) - len(subs_)
    B.require_zero([g - want], f"{label}: returned array is the partial trace over the requested subsystems "
                               f"(source={src} traced={traced})", "partial-trace")


def scenario(B, case):
    from symx.world import World

    if case["action"] == "crosshair":
        return cm.crosshair_condition(B, "einsum_conditions.py", case["fn"])
    W = World(B, case["world"])
    h = W.h
    act = case["action"]
    args = [W.sub(a) for a in case["args"]]
    pre = W.snapshot()
    got = None
    if act == "env.combine":
        W.envs[case["env"]].combine()
    elif act == "env.reorder":
        W.envs[case["env"]].reorder(*args)
    elif act == "env.expand":
        W.envs[case["env"]].expand()
    elif act == "env.trace_out":
        got = W.envs[case["env"]].trace_out(*args)
    elif act == "state.trace_out":
        got = args[0].trace_out()
    elif act == "ce.combine":
        W.ces[0].combine(*args)
    elif act == "ce.reorder":
        W.ces[0].reorder(*args)
    elif act == "ce.expand":
        W.ces[0].expand(*args)
    elif act == "ce.trace_out":
        got = W.ces[0].trace_out(*args)
    elif act == "ps.reorder":
        W.product_state_of(args[0]).reorder(*args)
    elif act in ("ce.merge", "ce.merge+trace_out"):
        merged = h.CompositeEnvelope(W.ces[0], W.ces[1])
        W.ces.append(merged)
        if act == "ce.merge" and args:
            merged.combine(*args)
        elif act == "ce.merge+trace_out":
            got = merged.trace_out(*args)
    else:
        raise ValueError(act)
    post = W.snapshot()
    checks.compare_unchanged(B, W, pre, post, f"C02/{act}")
    checks.check_wf(B, W, post, "C02/wf", unit=True)
    # structural post-conditions of the call itself
    if act == "env.combine":
        b = post.block_of(W.sub("f0"))
        B.require_structural(b is not None and b.kind == "env" and len(b.members) == 2, "env.combine: members share the envelope block")
    if act in ("ce.combine",) or (act == "ce.merge" and args):
        b = post.block_of(args[0])
        B.require_structural(all(any(m is a for m in b.members) for a in args), "combine: the given subsystems share one block")
    if act in ("ce.reorder", "ps.reorder"):
        b = post.block_of(args[0])
        B.require_structural([id(m) for m in b.members[:len(args)]] == [id(a) for a in args],
                             f"reorder: block order {[W.name_of(m) for m in b.members]} does not start with {case['args']}")
    if act == "env.reorder" and post.block_of(args[0]).kind == "env":
        b = post.block_of(args[0])
        B.require_structural(b.members[0] is args[0], "env.reorder: first given member is the first tensor factor")
    if act.endswith("trace_out"):
        _check_trace_out(B, W, pre, got, args, f"C02/{act}")
