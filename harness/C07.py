"""C07 - every stored state is a valid normalised quantum state of its claimed form.

One inductive step from an arbitrary well-formed pre-state: the scenarios of C01 (operations of every type), C03
(composite operations), C06 (channels), C05 (projective measurements, every outcome branch), C09 (POVMs), C10 (resizes)
and C02 (structural calls) are re-run on a spread of their structural cases, under BOTH contraction settings where the
scenario does not depend on it, and ONLY the well-formedness obligations are asserted on the post-state:
  structural  every live subsystem stored in exactly one place, shape = product of the member dimensions, the expansion
              level tag matches the representation, all members of a block report the block's level, labels in range,
              destroyed subsystems hold nothing  (discrete; a violation is a WFError)
  numeric     unit norm of vectors, unit trace and Hermiticity of density matrices, for ALL contents (solver obligations)
Because every scenario starts from arbitrary symbolic contents of a well-formed layout, the one-step results compose to
histories of any length over the layouts in the bound.  NOT decided: positive semidefiniteness (for-all positivity of
degree >= 4 forms is outside what z3 / cvc5 do in budget) and Matrix->Vector contraction of symbolic matrices (eigh, cut; concrete matrices are contracted numerically)."""
ASSUMPTIONS = [
    "only the well-formedness obligations (kinds: normalisation, hermiticity, structural WFError) of the re-run scenarios are "
    "asserted here; their state-map obligations belong to C01..C10",
    "positive semidefiniteness is NOT decided; eigh-based contraction is cut",
    "unit norm / trace is asserted after an operation only for unitary or renormalising operation types (property statement)",
]
BOUNDS = {"quick": "every 3rd..6th structural case of C01, C03, C06, C05, C09, C10, C02 (quick tiers), contraction off and on; the concrete contraction cases of C08",
          "thorough": "every 2nd case"}
OPTS = {"quick": {"max_paths": 160, "timeout_ms": 10000, "case_timeout_s": 900, "exact_close": True},
        "thorough": {"max_paths": 128, "timeout_ms": 30000, "case_timeout_s": 1800, "exact_close": True}}
KIND_FILTER = {"normalisation", "hermiticity"}

SOURCES = [("C01", 4), ("C03", 3), ("C06", 4), ("C05", 5), ("C09", 5), ("C10", 6), ("C02", 6)]


def _has_matrix(c):
    w = c.get("world")
    return isinstance(w, dict) and any(b.get("level") == "M" for b in w.get("blocks", []))


def cases(tier):
    import importlib

    out = []
    # contraction of concrete pure / mixed density matrices at every container (goes through the numeric eigh): the level tags
    # of the container AND of its members after contract(), shapes and normalisation
    from harness import C08

    for c in C08.cases("quick"):
        if c.get("what") == "concrete":
            d = dict(c)
            d["id"], d["src"] = f"C08/{c['id']}", "C08"
            out.append(d)
    for src, stride in SOURCES:
        if tier == "thorough":
            stride = 2
        mod = importlib.import_module(f"harness.{src}")
        for k, c in enumerate(mod.cases("quick")):
            forced = (src == "C06" and c.get("fam") == "sym2" and "/E1-" in c["id"]) or \
                     (src == "C10" and "-M/" in c["id"] and c["id"].startswith("resize/C"))  # Matrix-level product spaces
            if k % stride and not forced:
                continue
            d = dict(c)
            d["id"], d["src"] = f"{src}/{c['id']}", src
            out.append(d)
            # the same step with automatic contraction on (where it does not blow up the purity test, see C08)
            if isinstance(c.get("world"), dict) and not _has_matrix(c) and src in ("C01", "C03", "C05") and k % (2 * stride) == 0 \
                    and not (src == "C01" and c["kind"] in ("fock", "custom") and c["op"] == "Custom"):
                d2 = dict(d)
                w = dict(c["world"])
                w["contraction"] = True
                d2["world"] = w
                d2["id"] = f"{src}+contraction/{c['id']}"
                out.append(d2)
    return out


def scenario(B, case):
    import importlib

    mod = importlib.import_module(f"harness.{case['src']}")
    return mod.scenario(B, case)
