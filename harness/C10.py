"""C10 - Fock-space truncation never silently loses state.

(a) resize: one structural case = location of the Fock subsystem (own label / vector / matrix, combined envelope in
    either order, composite product space at every position) x level x entry point x requested dimension 0..d+2.
    The state is symbolic; which levels are populated is decided by solver forks inside the library's guards.
    Obligations: grow => True, zero padding, state kept; shrink returning a true value => dimension = request and
    the state embedded back equals the pre-state (i.e. nothing was populated beyond the new cut-off and the kept part
    is identical); a false value => dimension and state untouched; `dimensions` equals the Fock axis length (WF).
(b) automatic dimension before ladder / phase / identity operations at cut-off 3 with arbitrary occupation: the result
    equals the ideal operator applied in a space one level larger than anything the implementation chose."""
from symx import checks, ref
from harness import common as cm

ASSUMPTIONS = [
    "reals, not floats; contraction off",
    "structure (locations, levels, entry points, requested dimensions, cut-off 3) is the enumerated bound; contents symbolic",
    "label level additionally with symbolic integers (CrossHair): label n < cut-off d <= 64, request in -4..80, two successive requests "
    "with d <= 32; beyond these ranges nothing is claimed",
    "adequacy of the Displace / Squeeze dimension search is NOT decided symbolically (iterated float expm); it is exercised "
    "with concrete parameters on number states only (cases ideal/...: lost population <= 1e-4, deviation <= 5e-3)",
]
BOUNDS = {
    "quick": "Fock cut-off 3 (2 inside 3-member product spaces), requested dimensions 0..5, every location x level x entry point",
    "thorough": "cut-off 4, requested dimensions 0..6",
}
OPTS = {"quick": {"max_paths": 64, "timeout_ms": 10000, "case_timeout_s": 900, "exact_close": True},
        "thorough": {"max_paths": 128, "timeout_ms": 30000, "case_timeout_s": 3000, "exact_close": True}}


def cases(tier):
    out = []
    d = 3 if tier == "quick" else 4
    for lid, w, t, entries in cm.layouts_for_target("fock", tier, dF=d, dC=2):
        if lid.startswith("C1") or lid.startswith("C2"):
            # keep the product dimension small: the bystander Fock has cut-off 2
            for s in w["subs"]:
                if s["name"] == "f1":
                    s["dim"] = 2
        for entry in entries:
            for new in range(0, d + 3):
                out.append({"id": f"resize/{lid}/{entry}/{d}to{new}", "what": "resize", "world": w, "target": t,
                            "entry": entry, "new": new})
    # label states |n> with n >= 1: the boundary request "new dimension = n"
    for lab in (1, 2):
        w = cm.world(cm.subs(1, 0, d), [{"kind": "own", "sub": "f0", "level": "L", "label": lab},
                                       {"kind": "own", "sub": "p0", "level": "V"}])
        wc = cm.world(cm.subs(2, 0, d), [{"kind": "own", "sub": "f0", "level": "L", "label": lab},
                                        {"kind": "ps", "ce": 0, "members": ["p1", "f1"], "level": "V"}], [["e0", "e1"]])
        for new in range(0, d + 2):
            for entry in ("state", "envelope"):
                out.append({"id": f"resize/S-L{lab}/{entry}/{d}to{new}", "what": "resize", "world": w, "target": "f0",
                            "entry": entry, "new": new})
            out.append({"id": f"resize/C0-L{lab}/composite/{d}to{new}", "what": "resize", "world": wc, "target": "f0",
                        "entry": "composite", "new": new})
    # (b) operations with automatic dimension
    for lid, w, t, entries in cm.layouts_for_target("fock", "quick", dF=3, dC=2):
        if not (lid in ("S-V", "S-M", "E1-PF-V", "E1-FP-M", "C1-pos1-V", "C1-pos2-V")):
            continue
        for s in w["subs"]:
            if s["name"] == "f1":
                s["dim"] = 2
        for op in ("Creation", "Annihilation", "PhaseShift", "Identity"):
            out.append({"id": f"auto/{lid}/{op}", "what": "auto", "world": w, "target": t, "entry": entries[-1], "op": op,
                        "kind": "fock"})
    # (c) displacement / squeezing with CONCRETE parameters on number states at several locations: the automatically
    #     chosen cut-off must keep the result within the documented truncation threshold of the ideal state
    for op, params in (("Displace", [0.4 + 0.3j, -0.8j, 1.1]), ("Squeeze", [0.3, 0.2 - 0.25j])):
        for k, par in enumerate(params):
            for loc in ("own-L", "own-V", "env-PF", "ps-second"):
                for n0 in (0, 1):
                    out.append({"id": f"ideal/{op}/{k}/{loc}/n{n0}", "what": "ideal", "op": op, "param": [par.real, par.imag] if
                                isinstance(par, complex) else [float(par), 0.0], "loc": loc, "n0": n0})
    # (d) label level with SYMBOLIC integers (engine E2, CrossHair): |n> at cut-off d <= 64, any request in -4..80, and two
    #     successive requests; plus the reachability twin that must be refuted
    for fn in ("label_resize_ok", "label_resize_twice_ok"):
        out.append({"id": f"crosshair/{fn}", "what": "crosshair", "fn": fn})
    out.append({"id": "crosshair/reachability-twin", "what": "crosshair", "fn": "reachability_twin"})
    #     automatic dimension for ladder / phase / identity operations with a symbolic highest occupied level n <= 100000
    out.append({"id": "crosshair/auto_dimension_holds_result", "what": "crosshair", "fn": "auto_dimension_holds_result",
                "file": "c10_auto_dims.py"})
    out.append({"id": "crosshair/auto-dimension-reachability-twin", "what": "crosshair", "fn": "reachability_twin", "file": "c10_auto_dims.py"})
    return out


def _ideal(B, case):
    """concrete run through the real dimension search; compared with the operator at a much larger cut-off"""
    import numpy as np
    import scipy.linalg as sl

    from photon_weave.operation import FockOperationType, Operation

    from symx.world import World

    n0, loc = case["n0"], case["loc"]
    par = complex(case["param"][0], case["param"][1])
    S = cm.subs(2, 0, [n0 + 1, 2])
    if loc == "own-L":
        w = cm.world(S, [{"kind": "own", "sub": "f0", "level": "L", "label": n0}])
    elif loc == "own-V":
        w = cm.world(S, [{"kind": "own", "sub": "f0", "level": "L", "label": n0}])
    elif loc == "env-PF":
        w = cm.world(S, [{"kind": "own", "sub": "f0", "level": "L", "label": n0}, {"kind": "own", "sub": "p0", "level": "L", "label": "R"}])
    else:
        w = cm.world(S, [{"kind": "own", "sub": "f0", "level": "L", "label": n0}, {"kind": "own", "sub": "p1", "level": "L", "label": "L"}],
                     [["e0", "e1"]])
    W = World(B, w)
    f0 = W.sub("f0")
    if loc == "own-V":
        f0.expand()
    elif loc == "env-PF":
        e = W.envs["e0"]
        e.combine()
        e.reorder(e.polarization, e.fock)
    elif loc == "ps-second":
        W.ces[0].combine(W.sub("p1"), f0)
    op = Operation(getattr(FockOperationType, case["op"]), **({"alpha": par} if case["op"] == "Displace" else {"zeta": par}))
    f0.apply_operation(op)
    post = W.snapshot()
    d = int(f0.dimensions)
    comp = [m for m in post.block_of(f0).members]
    rho, dims = post.joint(comp)
    red, _ = ref.partial_trace(rho, dims, [[id(m) for m in comp].index(id(f0))])
    got = np.array([[complex(_c(B, red[i, j])) for j in range(d)] for i in range(d)])
    # ideal state at a large cut-off
    Dbig = 60
    a = np.diag(np.sqrt(np.arange(1, Dbig)), 1).astype(complex)
    ad = a.conj().T
    G = par * ad - np.conj(par) * a if case["op"] == "Displace" else 0.5 * (np.conj(par) * a @ a - par * ad @ ad)
    psi = sl.expm(G)[:, n0]
    lost = float(np.sum(np.abs(psi[d:]) ** 2)) if d < Dbig else 0.0
    want = np.outer(psi[:d], psi[:d].conj())
    if case["op"] == "Squeeze":  # this operation type renormalises
        want = want / np.trace(want).real
    err = float(np.max(np.abs(got - want)))
    # (100x the documented threshold: the dimension search compares floats, a tighter bound would make the verdict depend
    #  on rounding differences between the exact-rational and the floating-point run)
    B.require_structural(lost <= 1e-4, f"C10/ideal: cut-off chosen for {case['op']}({par}) on |{n0}> drops more than 1e-4 of the "
                                       f"ideal state's population (documented threshold 1e-6)", detail={"cutoff": d, "lost": lost})
    B.require_structural(err <= 5e-3, f"C10/ideal: {case['op']}({par}) on |{n0}> deviates from the ideal state by more than 5e-3",
                         detail={"cutoff": d, "err": err})
    checks.check_wf(B, W, post, "C10/ideal wf", unit=False, numeric=False)


def _c(B, x):
    if B.mode == "real":
        return complex(x)
    from symx import core

    return complex(core.SC.lift(x))


def scenario(B, case):
    from symx.explore import Cut
    from symx.world import World

    if case["what"] == "ideal":
        return _ideal(B, case)
    if case["what"] == "crosshair":
        f = case.get("file", "c10_label_resize.py")
        if case["fn"] == "reachability_twin":
            return cm.crosshair_condition(B, f, "reachability_twin", expect="refuted")
        return cm.crosshair_condition(B, f, case["fn"])
    W = World(B, case["world"])
    h = W.h
    t = W.sub(case["target"])
    pre = W.snapshot()
    d0 = int(t.dimensions)
    if case["what"] == "auto":
        from harness.C01 import make_operation

        op, refop, renorm = make_operation(B, case, W)
        try:
            cm.call_entry(W, case["entry"], case["target"], "apply_operation", op)
        except ValueError as e:
            if "entirely composed of zeros" in str(e):
                raise Cut("all-zero rejection (subject of C17)")
            raise
        post = W.snapshot()
        checks.compare_joint(B, W, pre, post, [t], None, "C10/auto", renorm=renorm,
                             operator=lambda dims, pos: refop(dims[pos[0]]), headroom=1)
        checks.check_wf(B, W, post, "C10/auto wf", unit=renorm or case["op"] in ("PhaseShift", "Identity"))
        return
    new = case["new"]
    if case["entry"] == "state":
        ret = t.resize(new)
    elif case["entry"] == "envelope":
        ret = t.envelope.resize_fock(new)
    else:
        ret = W.ces[0].resize_fock(new, t)
    post = W.snapshot()
    d1 = int(t.dimensions)
    ok = bool(ret)
    if new < 1:
        B.require_structural(not ok and d1 == d0, f"C10: resize to {new} must be refused (returned {ret!r}, dimension {d1})")
    elif new > d0:
        B.require_structural(ok and d1 == new, f"C10: growing {d0}->{new} returned {ret!r}, dimension now {d1}")
    elif new == d0:
        B.require_structural(d1 == d0, f"C10: resize to the current dimension changed it to {d1}")
    else:
        if ok:
            B.require_structural(d1 == new, f"C10: shrink {d0}->{new} reported success but the dimension is {d1}")
        else:
            B.require_structural(d1 == d0, f"C10: shrink {d0}->{new} reported failure but the dimension is {d1}")
    # the joint state, embedded into the larger of the two spaces, is unchanged in every case: for a successful shrink
    # this says that nothing was populated beyond the new cut-off and that the kept part is identical
    checks.compare_unchanged(B, W, pre, post, f"C10/resize {d0}->{new} (returned {bool(ret)})")
    checks.check_wf(B, W, post, "C10/wf", unit=True)
