"""C15 - Operation objects are pure, reusable descriptions.

Twin programs: an operation `op` is constructed, then (interleaving) other operations are constructed and/or applied,
then `op` is applied to a first target and afterwards to a second target of a different size / in a different
container.  Every application of `op` must act as a freshly constructed operation would: the joint post-state of each
step equals the reference embedding of op's textbook operator at the dimension of that target (symbolic states,
parameters and operator entries), the accepted operand types are unchanged, and arrays supplied by the user hold the
same values afterwards."""
from symx import checks, ref
from harness import common as cm

ASSUMPTIONS = [
    "reals, not floats; contraction off; the all-zero rejection is cut (C17)",
    "operation kinds, interleavings and target sequences are the enumerated bound; states, parameters, operators symbolic",
]
BOUNDS = {"quick": "operation kinds: Fock Creation / Annihilation / PhaseShift / Custom / Expresion, polarization RX / Custom(numpy), "
                   "custom-state Custom, composite CX / Expression(operand typings of equal and of different arity, as names and as classes); interleavings: none, construct a sibling "
                   "operation of the same type with other parameters, construct+apply a sibling; two targets of different size",
          "thorough": "same"}
OPTS = {"quick": {"max_paths": 96, "timeout_ms": 10000, "case_timeout_s": 900},
        "thorough": {"max_paths": 192, "timeout_ms": 30000, "case_timeout_s": 1800}}

KINDS = ["fock.DisplaceConcrete", "comp.ExprFF", "comp.ExprF1c", "comp.ExprFFc", "custom.ExprNumpyAdd", "fock.Creation", "fock.Annihilation", "fock.PhaseShift", "fock.Custom", "fock.Expresion", "pol.RX", "pol.CustomNumpy",
         "custom.Custom", "comp.CX", "comp.ExprPC", "comp.ExprCP"]
INTERLEAVE = ["none", "construct-sibling", "apply-sibling"]


def cases(tier):
    out = []
    for k in KINDS:
        for il in INTERLEAVE:
            out.append({"id": f"{k}/{il}", "kind": k, "interleave": il})
    return out


def _world(kind):
    """two targets for the operation: t1 (first application) and t2 (second application)"""
    if kind == "fock.DisplaceConcrete":
        # two targets with the same highest occupied level but different amplitudes (set concretely in the scenario)
        S = cm.subs(2, 0, [4, 4])
        w = cm.world(S, [{"kind": "own", "sub": "f0", "level": "V"}, {"kind": "own", "sub": "f1", "level": "V"}], [["e0", "e1"]])
        return w, [["f0"], ["f1"]]
    if kind == "fock.Expresion":
        # the dimension search of Expresion evaluates floats of the state: concrete (label) targets
        S = cm.subs(2, 0, [2, 3])
        w = cm.world(S, [{"kind": "own", "sub": "f0", "level": "L", "label": 1},
                         {"kind": "own", "sub": "f1", "level": "L", "label": 2}], [["e0", "e1"]])
        return w, [["f0"], ["f1"]]
    if kind.startswith("fock"):
        S = cm.subs(2, 0, [2, 3])
        w = cm.world(S, [{"kind": "own", "sub": "f0", "level": "V"},
                         {"kind": "ps", "ce": 0, "members": ["p1", "f1"], "level": "V"}], [["e0", "e1"]])
        return w, [["f0"], ["f1"]]
    if kind.startswith("pol"):
        S = cm.subs(2, 0, [2, 2])
        w = cm.world(S, [{"kind": "env", "env": "e0", "order": "FP", "level": "V"},
                         {"kind": "ps", "ce": 0, "members": ["p1", "f1"], "level": "V"}], [["e1"]])
        return w, [["p0"], ["p1"]]
    if kind.startswith("custom"):
        S = cm.subs(1, 2, 2, 2)
        w = cm.world(S, [{"kind": "own", "sub": "c0", "level": "V"},
                         {"kind": "ps", "ce": 0, "members": ["p0", "c1"], "level": "V"}], [["e0", "c1"]])
        return w, [["c0"], ["c1"]]
    if kind in ("comp.ExprF1c", "comp.ExprFFc"):
        # operands inside product spaces (the composite envelope hands a composite operation on ONE own-state subsystem to
        # that subsystem, which only accepts its own operation types)
        S = cm.subs(4, 0, [2, 2, 2, 2])
        w = cm.world(S, [{"kind": "ps", "ce": 0, "members": ["f0", "f1"], "level": "V"},
                         {"kind": "ps", "ce": 0, "members": ["f2", "f3"], "level": "V"}], [["e0", "e1", "e2", "e3"]])
        return w, ([["f0"], ["f2"]] if kind == "comp.ExprF1c" else [["f0", "f1"], ["f2", "f3"]])
    if kind == "comp.ExprFF":
        # two Fock operands whose automatically chosen dimensions are (2,3) for the first and (3,2) for the second target pair
        S = cm.subs(4, 0, [3, 3, 3, 3])
        w = cm.world(S, [{"kind": "own", "sub": "f0", "level": "L", "label": 1}, {"kind": "own", "sub": "f1", "level": "L", "label": 2},
                         {"kind": "own", "sub": "f2", "level": "L", "label": 2}, {"kind": "own", "sub": "f3", "level": "L", "label": 1}],
                     [["e0", "e1", "e2", "e3"]])
        return w, [["f0", "f1"], ["f2", "f3"]]
    S = cm.subs(2, 2, 2, 2)
    blocks = [{"kind": "own", "sub": "p0", "level": "V"}, {"kind": "own", "sub": "c0", "level": "V"},
              {"kind": "ps", "ce": 0, "members": ["c1", "p1"], "level": "V"}]
    w = cm.world(S, blocks, [["e0", "e1", "c0", "c1"]])
    if kind == "comp.CX":
        return w, [["p0", "p1"], ["p1", "p0"]]
    if kind == "comp.ExprPC":
        return w, [["p0", "c0"], ["p1", "c1"]]
    return w, [["c0", "p0"], ["c1", "p1"]]


def _make(B, kind, tag, W):
    """returns (Operation, reference operator builder(list of dims) -> matrix, renormalise, user arrays [(array, copy)])"""
    from photon_weave.operation import (CompositeOperationType, CustomStateOperationType, FockOperationType, Operation,
                                        PolarizationOperationType)

    user = []
    if kind == "fock.Creation":
        return Operation(FockOperationType.Creation), (lambda d: cm.creation(B, d[0])), True, user, 1
    if kind == "fock.Annihilation":
        return Operation(FockOperationType.Annihilation), (lambda d: cm.annihilation(B, d[0])), True, user, 1
    if kind == "fock.PhaseShift":
        phi = B.angle("phi" + tag, 1)
        return Operation(FockOperationType.PhaseShift, phi=phi), (lambda d: cm.phase_shift(B, d[0], phi)), False, user, 0
    if kind == "fock.Custom":
        M = B.operator("O" + tag, 3)
        return (Operation(FockOperationType.Custom, operator=M), (lambda d: cm.embed_pad(B, B.np(M), 3, d[0])), False, user, 0)
    if kind == "fock.Expresion":
        al = 0.5 + 0.25j  # concrete: the dimension search of Expresion evaluates floats of the operator output
        ctx = {"a": lambda dims: _ann(B, dims[0]), "ad": lambda dims: _cre(B, dims[0])}
        op = Operation(FockOperationType.Expresion, expr=("add", ("s_mult", al, "a"), "ad"), context=ctx)
        return op, (lambda d: cm.annihilation(B, d[0]) * al + cm.creation(B, d[0])), False, user, 1
    if kind == "pol.RX":
        th = B.angle("th" + tag, 2)
        return Operation(PolarizationOperationType.RX, theta=th), (lambda d: cm.pol_gate(B, "RX", {"theta": th})), True, user, 0
    if kind == "pol.CustomNumpy":
        M = B.operator("O" + tag, 2, numpy_array=True)
        user.append((M, M.copy()))
        Mj = B.jnp.asarray(M) if B.mode == "sym" else B.jnp.array(M)
        # the library requires a jax array for the operator; the user keeps M (numpy) and passes a view of it
        return Operation(PolarizationOperationType.Custom, operator=Mj), (lambda d: B.np(M).copy()), True, user, 0
    if kind == "custom.ExprNumpyAdd":
        # an expression whose leaves are numpy arrays OWNED BY THE USER (returned by the context callables): the operation
        # must not write into them, however often its operator is rebuilt
        import numpy as np
        k = 1.0 if not tag else 0.5
        H1 = np.array([[0.3, 0.2 - 0.1j], [0.2 + 0.1j, -0.4]]) * k
        H2 = np.array([[0.1, 0.5j], [-0.5j, 0.25]]) * k
        user.append((H1, H1.copy()))
        user.append((H2, H2.copy()))
        import jax.scipy.linalg as jsl  # (the shim's numeric expm in the symbolic run: the same rationals the library gets)

        U = B.np(jsl.expm(B.jnp.array(-1j * (H1.copy() + H2.copy()))))
        op = Operation(CustomStateOperationType.Expresion, expr=("expm", ("s_mult", -1j, ("add", "h1", "h2"))),
                       context={"h1": lambda dims: H1, "h2": lambda dims: H2})
        return op, (lambda d: U), True, user, 0
    if kind == "custom.Custom":
        M = B.operator("O" + tag, 2)
        return Operation(CustomStateOperationType.Custom, operator=M), (lambda d: B.np(M)), True, user, 0
    if kind == "comp.CX":
        from harness.C03 import _gate_matrix

        return Operation(CompositeOperationType.CXPolarization), (lambda d: _gate_matrix(B, "CX")), True, user, 0
    if kind in ("comp.ExprFF", "comp.ExprF1c", "comp.ExprFFc"):
        def num(d):
            M = ref.zeros((d, d), B.like())
            for n in range(d):
                M[n, n] = ref.const(n, B.like())
            return M

        def quad(d):
            # (lowers the photon number: stays inside the automatically chosen cut-off occupation + 1)
            return cm.annihilation(B, d)

        if kind != "comp.ExprFF":
            # diagonal unitary factors: nothing is annihilated (no path ends in the all-zero rejection) and they commute
            # with the truncation to the automatically chosen cut-off
            def quad(d):  # noqa: F811
                M = ref.zeros((d, d), B.like())
                for n in range(d):
                    M[n, n] = ref.const([1, 1j, -1, -1j][n % 4], B.like())
                return M

            def num(d):  # noqa: F811
                M = ref.zeros((d, d), B.like())
                for n in range(d):
                    M[n, n] = ref.const([1, -1][n % 2], B.like())
                return M

        wrap = lambda M: B.jnp.array(M) if B.mode == "real" else B.jnp.ndarray(M)
        ctx = {"a0": lambda dims: wrap(quad(int(dims[0]))), "n1": lambda dims: wrap(num(int(dims[1])))}
        if kind == "comp.ExprF1c":
            # operand types given as CLASSES, one operand; its sibling has two operands of the same class (a prefix)
            op = Operation(CompositeOperationType.Expression, expr="a0", state_types=(W.h.Fock,), context={"a0": ctx["a0"]})
            return op, (lambda d: quad(d[0])), True, user, 0
        types = (W.h.Fock, W.h.Fock) if kind == "comp.ExprFFc" else ("Fock", "Fock")
        op = Operation(CompositeOperationType.Expression, expr=("kron", "a0", "n1"), state_types=types, context=ctx)
        return op, (lambda d: ref.kron(quad(d[0]), num(d[1]))), True, user, 0
    if kind in ("comp.ExprPC", "comp.ExprCP"):
        M = B.operator("U" + tag, 4)
        types = ("Polarization", "CustomState") if kind == "comp.ExprPC" else ("CustomState", "Polarization")
        op = Operation(CompositeOperationType.Expression, expr="U", state_types=types, context={"U": lambda dims: M})
        return op, (lambda d: B.np(M)), True, user, 0
    raise ValueError(kind)


def _ann(B, d):
    M = cm.annihilation(B, int(d))
    return B.jnp.array(M) if B.mode == "real" else B.jnp.ndarray(M)


def _cre(B, d):
    M = cm.creation(B, int(d))
    return B.jnp.array(M) if B.mode == "real" else B.jnp.ndarray(M)


SIBLING = {"comp.ExprPC": "comp.ExprCP", "comp.ExprCP": "comp.ExprPC", "comp.ExprF1c": "comp.ExprFFc", "comp.ExprFFc": "comp.ExprF1c"}


def _apply(W, kind, op, names):
    ts = [W.sub(n) for n in names]
    if kind.startswith("comp"):
        W.ces[0].apply_operation(op, *ts)
    else:
        ts[0].apply_operation(op)
    return ts


def _displace_concrete(B, case):
    """one Displace operation object applied to two concrete states with equal highest occupied level but different
    amplitudes: each result must be within 2e-3 of the ideal displaced state (the dimension estimate depends on the
    amplitudes, so a stale estimate from the first application truncates the second)"""
    import numpy as np
    import scipy.linalg as sl

    from photon_weave.operation import FockOperationType, Operation

    from symx.world import World

    w, seq = _world("fock.DisplaceConcrete")
    W = World(B, w)
    alpha = 2.0
    vecs = {"f0": np.array([0.99995, 0, 0, 0.01]), "f1": np.array([0.1, 0, 0, 0.9949874])}
    for n, v in vecs.items():
        v = v / np.linalg.norm(v)
        W.sub(n).state = B.jnp.array(v.reshape(4, 1).astype(complex))
    op = Operation(FockOperationType.Displace, alpha=alpha)
    Dbig = 90
    a = np.diag(np.sqrt(np.arange(1, Dbig)), 1).astype(complex)
    U = sl.expm(alpha * a.conj().T - np.conj(alpha) * a)
    for step, names in enumerate(seq):
        if case["interleave"] != "none":
            sib = Operation(FockOperationType.Displace, alpha=0.3)
            if case["interleave"] == "apply-sibling":
                W.sub(seq[1 - step][0]).apply_operation(sib) if step == 0 else None
        f = W.sub(names[0])
        psi0 = np.zeros(Dbig, dtype=complex)
        st = B.np(f.state).reshape(-1)
        psi0[:len(st)] = [complex(_cc(B, x)) for x in st]
        f.apply_operation(op)
        got = np.array([complex(_cc(B, x)) for x in B.np(f.state).reshape(-1)])
        want = U @ psi0
        d = len(got)
        err = float(np.max(np.abs(got - want[:d])))
        lost = float(np.sum(np.abs(want[d:]) ** 2))
        B.require_structural(err <= 2e-3 and lost <= 1e-4,
                             f"C15: application {step + 1} of one Displace object deviates from the ideal displaced state "
                             f"(the result must not depend on what the object was applied to before)", detail={"err": err, "lost": lost, "dim": d})


def _cc(B, x):
    if B.mode == "real":
        return complex(x)
    from symx import core

    return complex(core.SC.lift(x))


def scenario(B, case):
    from symx.explore import Cut
    from symx.world import World

    kind, il = case["kind"], case["interleave"]
    if kind == "fock.DisplaceConcrete":
        return _displace_concrete(B, case)
    w, seq = _world(kind)
    W = World(B, w)
    op, refop, renorm, user, headroom = _make(B, kind, "", W)
    sib_kind = SIBLING.get(kind, kind)
    for step, names in enumerate(seq):
        if il != "none":
            sib, sref, srenorm, suser, _ = _make(B, sib_kind, f"_s{step}", W)
            if il == "apply-sibling":
                # apply the sibling to the *other* target set (kept out of the step under test)
                other = _world(sib_kind)[1][1 - step] if sib_kind != kind else seq[1 - step]
                try:
                    _apply(W, sib_kind, sib, other)
                except ValueError as e:
                    if "entirely composed of zeros" in str(e):
                        raise Cut("all-zero rejection (subject of C17)")
                    raise
        pre = W.snapshot()
        try:
            ts = _apply(W, kind, op, names)
        except ValueError as e:
            if "entirely composed of zeros" in str(e):
                raise Cut("all-zero rejection (subject of C17)")
            raise
        post = W.snapshot()
        checks.compare_joint(B, W, pre, post, ts, None, f"C15/application {step + 1} to {names}", renorm=renorm,
                             operator=lambda dims, pos: refop([dims[p] for p in pos]), headroom=headroom,
                             observe=(step == 0))
    for arr, copy in user:
        B.require_zero([B.np(arr) - B.np(copy)], "C15: an array supplied by the user was modified", "side-effect")
    checks.check_wf(B, W, W.snapshot(), "C15/wf", unit=False)


def _types(op):
    t = getattr(op._operation_type, "expected_base_state_types", None)
    return None if t is None else [getattr(x, "__name__", str(x)) for x in t]
