"""C01 - operations act as the stated linear map on exactly the addressed subsystem.

One structural case = target kind x storage layout x level x entry point x operation type.  Contents of
every non-label block, the operator entries (Custom) and the parameters (angles, phi) are symbolic.
Assertion: joint post-state == (O x I) rho (O x I)^+ (cross-multiplied by the trace for the operation
types that renormalise), bystander components unchanged, WF(post)."""
from symx import checks, ref
from harness import common as cm

ASSUMPTIONS = [
    "amplitudes and parameters are mathematical reals/complex numbers (no IEEE rounding)",
    "eigh-based Matrix->Vector contraction is cut: harness runs with Config.set_contraction(False)",
    "Displace / Squeeze are not exercised here (dimension search branches on floats of expm output); see C12",
    "structure (which layouts, dimensions, entry points, operation types) is the enumerated bound",
]
BOUNDS = {
    "quick": "<=2 envelopes + <=1 custom state, Fock cut-off 2 (3 for ladder ops), custom dimension 2, blocks <=3 members, "
             "product dimension <= 12; operators fully symbolic 2x2 / dxd; angles symbolic",
    "thorough": "as quick plus Matrix level at every position, Fock cut-off 3, custom dimension 3",
}
OPTS = {"quick": {"max_paths": 64, "timeout_ms": 10000}, "thorough": {"max_paths": 256, "timeout_ms": 30000}}

POL_OPS = ["Custom", "RX", "RY", "RZ", "U3", "H", "X", "Y", "Z", "S", "T", "SX", "I"]
FOCK_OPS = ["Custom", "Creation", "Annihilation", "PhaseShift", "Identity"]
CUSTOM_OPS = ["Custom"]


def cases(tier):
    out = []
    for kind, ops in (("pol", POL_OPS), ("fock", FOCK_OPS), ("custom", CUSTOM_OPS)):
        dF = 2
        lays = cm.layouts_for_target(kind, tier, dF=dF, dC=2)
        for lid, w, t, entries in lays:
            for entry in entries:
                for op in ops:
                    if tier == "quick":
                        # named constant gates / extra rotations only at three representative layouts
                        rep = lid in ("S-V", "E1-PF-M", "C1-pos1-V")
                        if op not in ("Custom", "U3", "Creation", "Annihilation", "PhaseShift") and not rep:
                            continue
                    out.append({"id": f"{kind}/{lid}/{entry}/{op}", "kind": kind, "world": w, "target": t,
                                "entry": entry, "op": op})
    return out


def make_operation(B, case, W):
    """returns (Operation, reference operator builder(dim) -> matrix, renormalises?)"""
    from photon_weave.operation import (CustomStateOperationType, FockOperationType, Operation,
                                        PolarizationOperationType)

    kind, op = case["kind"], case["op"]
    if kind == "pol":
        T = PolarizationOperationType
        if op == "Custom":
            M = B.operator("O", 2)
            return Operation(T.Custom, operator=M), (lambda d: B.np(M)), True
        params = {}
        if op in ("RX", "RY", "RZ"):
            params = {"theta": B.angle("theta", 2)}
        if op == "U3":
            params = {"phi": B.angle("phi", 1), "theta": B.angle("theta", 2), "omega": B.angle("omega", 1)}
        return Operation(getattr(T, op), **params), (lambda d: cm.pol_gate(B, op, params)), True
    if kind == "custom":
        d = W.dim(case["target"])
        M = B.operator("O", d)
        return Operation(CustomStateOperationType.Custom, operator=M), (lambda dd: B.np(M)), True
    T = FockOperationType
    d = W.dim(case["target"])
    if op == "Custom":
        M = B.operator("O", d)
        return Operation(T.Custom, operator=M), (lambda dd: cm.embed_pad(B, B.np(M), d, dd)), False
    if op == "Creation":
        return Operation(T.Creation), (lambda dd: cm.creation(B, dd)), True
    if op == "Annihilation":
        return Operation(T.Annihilation), (lambda dd: cm.annihilation(B, dd)), True
    if op == "PhaseShift":
        phi = B.angle("phi", 1)
        return Operation(T.PhaseShift, phi=phi), (lambda dd: cm.phase_shift(B, dd, phi)), False
    if op == "Identity":
        return Operation(T.Identity), (lambda dd: cm.identity(B, dd)), False
    raise ValueError(op)


def scenario(B, case):
    from symx.world import World

    W = World(B, case["world"])
    op, refop, renorm = make_operation(B, case, W)
    t = W.sub(case["target"])
    pre = W.snapshot()
    annihilates_everything = False
    try:
        cm.call_entry(W, case["entry"], case["target"], "apply_operation", op)
    except ValueError as e:
        # the only legitimate rejection of a valid request: the operator maps the state to zero
        if "entirely composed of zeros" not in str(e):
            raise
        annihilates_everything = True
    if annihilates_everything:
        # the all-zero rejection is cut after the check it guards; it is the subject of C17
        from symx.explore import Cut

        raise Cut("all-zero rejection (subject of C17)")
    post = W.snapshot()

    ladder = case["kind"] == "fock" and case["op"] in ("Creation", "Annihilation")
    # ladder operators are compared in a space one level larger than anything the implementation chose, so that a
    # cut-off that is too small shows up as lost population
    checks.compare_joint(B, W, pre, post, [t], None, "C01", renorm=renorm,
                         operator=lambda dims, pos: refop(dims[pos[0]]), headroom=1 if ladder else 0)
    unit = renorm or case["op"] in ("PhaseShift", "Identity")
    checks.check_wf(B, W, post, "C01/wf", unit=unit)
