"""C11 - passive linear optics conserves photon number.

bs/...   CompositeEnvelope.apply_operation(NonPolarizingBeamSplitter(eta), a, b) through the real path (combine,
         compute_dimensions, two resizes, compute_operator, einsum) with SYMBOLIC eta and symbolic input state.  The matrix
         exponential is in Cayley-Hamilton form (U = sum_k c_k (i eta G)^k / eta^k with free complex c_k), so what is
         proved holds for the true exponential.  Obligations:
           * expm is called once and its argument equals i*eta*(a (x) b^+ + a^+ (x) b) at the chosen cut-off (Hermitian
             generator, real eta) - decided for all eta;
           * the chosen common cut-off D is adequate: the input has no population with n_a + n_b >= D on this path (then the
             truncated generator acts on every populated sector exactly as the untruncated one);
           * the joint post-state equals (U on (a, b) in the order given) x identity applied to the zero-padded
             pre-state, for all c_k, all states, every storage layout and both operand orders; WF(post);
           * sector preservation: U has no matrix element between different total photon numbers (for all c_k).
mzi/...  50/50 splitter (eta = pi/4, numeric expm), phase phi (symbolic) on one arm, 50/50 splitter, one photon in:
         the detection probabilities are cos^2(phi/2) and sin^2(phi/2) within 1e-9 for ALL phi, read both from the final
         state and from the probability vector handed to the sampler by the real measure() call.
NOT decided: the exact SU(2) action for arbitrary symbolic eta end-to-end (needs the value of the exponential)."""
import itertools

from symx import checks, ref
from harness import common as cm

ASSUMPTIONS = [
    "expm in Cayley-Hamilton form for symbolic eta (every matrix function of eta*G has this form); that exp of an "
    "anti-Hermitian matrix is unitary is a theorem about expm, not decided here",
    "numeric expm (scipy) for eta = pi/4, entries recognised as exact algebraic numbers where possible",
    "reals, not floats; contraction off; structure (layouts, cut-offs <= 3, operand order) enumerated",
]
BOUNDS = {"quick": "two Fock modes with cut-offs (3,2) / (2,2): total photon number <= 3; 6 storage layouts x 2 operand orders; "
                   "Mach-Zehnder with one photon, phase on either arm",
          "thorough": "cut-offs (3,3): total photon number <= 4"}
OPTS = {"quick": {"max_paths": 48, "timeout_ms": 10000, "case_timeout_s": 1200, "exact_close": True},
        "thorough": {"max_paths": 96, "timeout_ms": 30000, "case_timeout_s": 3000, "exact_close": True}}


def _layouts(tier):
    dF = [3, 2] if tier == "quick" else [3, 3]
    S = cm.subs(2, 0, dF)
    comp = [["e0", "e1"]]
    L = []
    L.append(("own-VV", cm.world(S, [{"kind": "own", "sub": "f0", "level": "V"}, {"kind": "own", "sub": "f1", "level": "V"}], comp)))
    L.append(("own-LV", cm.world(S, [{"kind": "own", "sub": "f0", "level": "L", "label": 2}, {"kind": "own", "sub": "f1", "level": "V"}], comp)))
    L.append(("ps[f0,f1]-V", cm.world(S, [{"kind": "ps", "ce": 0, "members": ["f0", "f1"], "level": "V"}], comp)))
    L.append(("ps[f1,f0]-V", cm.world(S, [{"kind": "ps", "ce": 0, "members": ["f1", "f0"], "level": "V"}], comp)))
    S2 = cm.subs(2, 0, [2, 2])
    L.append(("ps[f1,p0,f0]-V", cm.world(S2, [{"kind": "ps", "ce": 0, "members": ["f1", "p0", "f0"], "level": "V"}], comp)))
    L.append(("envPF+own", cm.world(S2, [{"kind": "env", "env": "e0", "order": "PF", "level": "V"},
                                         {"kind": "own", "sub": "f1", "level": "V"}], comp)))
    # Matrix level: contents range over an open set of valid states (no zero populations), see backend.density("hermphys")
    L.append(("ps[f0,f1]-M", cm.world(S2, [{"kind": "ps", "ce": 0, "members": ["f0", "f1"], "level": "M", "param": "hermphys"}], comp)))
    # both modes populated up to level 2 (total photon number 4)
    S3 = cm.subs(2, 0, [3, 3])
    L.append(("own-LL22", cm.world(S3, [{"kind": "own", "sub": "f0", "level": "L", "label": 2},
                                        {"kind": "own", "sub": "f1", "level": "L", "label": 2}], comp)))
    L.append(("own33-VV", cm.world(S3, [{"kind": "own", "sub": "f0", "level": "V"}, {"kind": "own", "sub": "f1", "level": "V"}], comp)))
    return L


def cases(tier):
    out = []
    for lid, w in _layouts(tier):
        for order in (("f0", "f1"), ("f1", "f0")):
            if tier == "quick" and lid == "own33-VV" and order == ("f1", "f0"):
                continue  # (2 minutes; the other operand order of this layout runs in the quick tier)
            out.append({"id": f"bs/{lid}/{','.join(order)}", "what": "bs", "world": w, "operands": list(order)})
    # the SAME Operation object used twice (as examples/time_bin_encoding.py does): first on another pair (|1>,|0>) that ends
    # at cut-off 2, then on (a, b) whose current dimensions are also 2 but which may hold two photons together
    S4 = cm.subs(4, 0, [2, 2, 2, 2])
    comp4 = [["e0", "e1", "e2", "e3"]]
    tail = [{"kind": "own", "sub": "f2", "level": "L", "label": 1}, {"kind": "own", "sub": "f3", "level": "L", "label": 0}]
    for lid, blocks, order in (
            ("own-VV", [{"kind": "own", "sub": "f0", "level": "V"}, {"kind": "own", "sub": "f1", "level": "V"}], ("f0", "f1")),
            ("ps[f1,f0]-V", [{"kind": "ps", "ce": 0, "members": ["f1", "f0"], "level": "V"}], ("f0", "f1")),
            ("own-LL11", [{"kind": "own", "sub": "f0", "level": "L", "label": 1}, {"kind": "own", "sub": "f1", "level": "L", "label": 1}],
             ("f1", "f0"))):
        out.append({"id": f"bs-reused-operation/{lid}/{','.join(order)}", "what": "bs", "world": cm.world(S4, blocks + tail, comp4),
                    "operands": list(order), "reuse": ["f2", "f3"]})
    for arm in ("f0", "f1"):
        for src in ("f0", "f1"):
            out.append({"id": f"mzi/photon-in-{src}/phase-on-{arm}", "what": "mzi", "arm": arm, "src": src})
            # the same interferometer with the joint state held as a density matrix when the phase is applied
            out.append({"id": f"mzi-matrix/photon-in-{src}/phase-on-{arm}", "what": "mzi", "arm": arm, "src": src, "matrix": True})
    for d in (2, 3):
        out.append({"id": f"sectors/{d}", "what": "sectors", "d": d})
    return out


def _generator(B, D):
    a = cm.annihilation(B, D)
    ad = ref.dagger(a)
    return ref.kron(a, ad) + ref.kron(ad, a)


def _embed2(U, D, da, db):
    """operator on C^D x C^D -> operator on C^da x C^db acting on the lowest levels (zero elsewhere)"""
    out = ref.zeros((da * db, da * db), U)
    for i0 in range(min(D, da)):
        for i1 in range(min(D, db)):
            for j0 in range(min(D, da)):
                for j1 in range(min(D, db)):
                    out[i0 * db + i1, j0 * db + j1] = U[i0 * D + i1, j0 * D + j1]
    return out


class _ExpmLog:
    def __init__(self, B):
        import photon_weave.operation.composite_operation as co

        self.co = co
        self.orig = co.expm
        self.calls = []
        rec = self

        def wrapped(m, *a, **k):
            out = rec.orig(m, *a, **k)
            rec.calls.append((m, out))
            return out

        co.expm = wrapped

    def close(self):
        self.co.expm = self.orig


def scenario(B, case):
    from photon_weave.operation import CompositeOperationType, FockOperationType, Operation

    from symx.explore import Cut
    from symx.world import World, reset_library_state

    what = case["what"]
    if what == "sectors":
        reset_library_state()
        D = case["d"]
        eta = B.angle("eta", 1)  # (an angle, so that cos / sin of it are expressible as well as polynomials in it)
        U = B.np(CompositeOperationType.NonPolarizingBeamSplitter.compute_operator([D, D], eta=eta))
        bad = []
        for i in range(D * D):
            for j in range(D * D):
                if sum(divmod(i, D)) != sum(divmod(j, D)):
                    bad.append(U[i, j])
        B.require_zero(bad, f"C11: beam-splitter operator at cut-off {D} has no matrix element between different total "
                            f"photon numbers", "sector-preservation")
        return
    if what == "mzi":
        return _mzi(B, case)

    W = World(B, case["world"])
    a, b = [W.sub(n) for n in case["operands"]]
    eta = B.angle("eta", 1)  # (an angle, so that cos / sin of it are expressible as well as polynomials in it)
    op = Operation(CompositeOperationType.NonPolarizingBeamSplitter, eta=eta)
    if case.get("reuse"):
        try:
            W.ces[0].apply_operation(op, *[W.sub(n) for n in case["reuse"]])
        except ValueError as e:
            if "entirely composed of zeros" in str(e):
                raise Cut("all-zero rejection (subject of C17)")
            raise
    pre = W.snapshot()
    log = _ExpmLog(B)
    try:
        W.ces[0].apply_operation(op, a, b)
    except ValueError as e:
        if "entirely composed of zeros" in str(e):
            raise Cut("all-zero rejection (subject of C17)")
        raise
    finally:
        log.close()
    post = W.snapshot()
    Da, Db = int(a.dimensions), int(b.dimensions)
    B.require_structural(Da == Db, f"C11: the two modes were resized to different cut-offs {Da}, {Db}")
    B.require_structural(len(log.calls) == 1, f"C11: expm called {len(log.calls)} times")
    if Da != Db or len(log.calls) != 1:
        return
    D = Da
    arg, U = B.np(log.calls[0][0]), B.np(log.calls[0][1])
    G = _generator(B, D)
    B.require_zero([arg - G * (cm.I1(B) * eta)], f"C11: argument of expm is i*eta*(a b^+ + a^+ b) at cut-off {D}", "generator")
    # adequacy of the cut-off: nothing populated with n_a + n_b >= D
    comp = [c for c in checks.components(pre, pre, force_together=[a, b]) if any(x is a for x in c)][0]
    rho, dims = pre.joint(comp)
    pa, pb = [id(x) for x in comp].index(id(a)), [id(x) for x in comp].index(id(b))
    red, rd = ref.partial_trace(rho, dims, [pa, pb])
    lost = []
    for i in range(rd[0]):
        for j in range(rd[1]):
            if i + j >= D:
                lost.append(red[i * rd[1] + j, i * rd[1] + j])
    B.require_zero(lost, f"C11: cut-off {D} chosen for both modes, but the input has population with n_a + n_b >= {D}",
                   "cutoff-adequacy")
    # the map itself
    if hasattr(B, "observed"):
        B.observed["expm-argument"] = arg  # (the post-state depends on the Cayley-Hamilton symbols: not comparable)
    checks.compare_joint(B, W, pre, post, [a, b], None, "C11", renorm=True, observe=False,
                         operator=lambda dims_, pos_: _embed2(U, D, dims_[pos_[0]], dims_[pos_[1]]))
    checks.check_wf(B, W, post, "C11/wf", unit=True)


def _mzi(B, case):
    from photon_weave.operation import CompositeOperationType, FockOperationType, Operation

    from symx.world import World

    S = cm.subs(2, 0, [2, 2])
    src = case["src"]
    blocks = [{"kind": "own", "sub": "f0", "level": "L", "label": 1 if src == "f0" else 0},
              {"kind": "own", "sub": "f1", "level": "L", "label": 1 if src == "f1" else 0}]
    W = World(B, cm.world(S, blocks, [["e0", "e1"]]))
    f0, f1 = W.sub("f0"), W.sub("f1")
    ce = W.ces[0]
    phi = B.angle("phi", 2)
    import math

    bs = lambda: Operation(CompositeOperationType.NonPolarizingBeamSplitter, eta=math.pi / 4)
    ce.apply_operation(bs(), f0, f1)
    if case.get("matrix"):
        ce.expand(f0)
    W.sub(case["arm"]).apply_operation(Operation(FockOperationType.PhaseShift, phi=phi))
    ce.apply_operation(bs(), f0, f1)
    snap = W.snapshot()
    rho, dims = snap.joint([f0, f1])
    d1 = dims[1]
    p10 = rho[1 * d1 + 0, 1 * d1 + 0]
    p01 = rho[0 * d1 + 1, 0 * d1 + 1]
    c, s = B.cos_sin(phi * 0.5)
    # which output port is the bright one depends on the convention; the set {cos^2, sin^2} is fixed by the property and
    # the assignment must be the same for every phi: the photon entering a, phase phi, leaves in the *other* port with
    # probability cos^2(phi/2) for this splitter convention (U = exp(i eta (a b^+ + a^+ b)))
    if hasattr(B, "observed"):
        import numpy as np

        arr = np.empty((2,), dtype=object)
        arr[0], arr[1] = p10, p01
        B.observed["ports"] = arr
    same, other = (p10, p01) if src == "f0" else (p01, p10)
    tol = 1e-9
    for name, got, want in (("the input port's own output", same, s * s), ("the other output", other, c * c)):
        d = got - want
        B.require(_le(B, d, tol), f"C11/mzi: probability of {name} <= expected + 1e-9", "mzi")
        B.require(_le(B, d * (-1), tol), f"C11/mzi: probability of {name} >= expected - 1e-9", "mzi")
    # the same numbers must be what the real measurement hands to the sampler
    out = ce.measure(f0, f1)
    draws = B.get_draws()
    B.require_structural(len(draws) >= 1, "C11/mzi: measuring the outputs made no random draw")
    if draws:
        d0 = draws[0]
        tot = d0["p"][0] + d0["p"][1]
        # first draw = first measured mode; its outcome-1 probability is that mode's detection probability
        first = list(out.keys())[0] if out else None
        want1 = None
        if first is f0:
            want1 = (s * s) if src == "f0" else (c * c)
        elif first is f1:
            want1 = (c * c) if src == "f0" else (s * s)
        if want1 is not None:
            dd = d0["p"][1] - want1 * tot
            B.require(_le(B, dd, tol), "C11/mzi: sampler probability of a click <= expected + 1e-9", "mzi")
            B.require(_le(B, dd * (-1), tol), "C11/mzi: sampler probability of a click >= expected - 1e-9", "mzi")


def _le(B, x, tol):
    if B.mode == "real":
        z = complex(x)
        return z.real <= tol and abs(z.imag) <= tol
    from symx import core

    x = core.SC.lift(x)
    f = core.f_and(core.f_cmp(x.re - core.Poly.const(core.Fraction(tol)), "<="),
                   core.f_cmp(x.im - core.Poly.const(core.Fraction(tol)), "<="),
                   core.f_cmp(-x.im - core.Poly.const(core.Fraction(tol)), "<="))
    return core.mk_bool(f)
