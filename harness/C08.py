"""C08 - representation changes are lossless; the contraction setting is physics-neutral.

expand/...    every container (Fock, Polarization, CustomState standalone; envelope members; combined envelope; composite
              product space through CompositeEnvelope.expand and ProductState.expand) is expanded step by step from its
              level: the joint density matrix is unchanged (in particular the Matrix level is |psi><psi| with the conjugate
              on the right factor, for complex symbolic psi), level tags are truthful.
contract/...  contract() on symbolic vectors / matrices: the outcome is a solver-decided fork; on the "contracts" side the
              new representation is the same physical state (label <=> exact basis vector), on the other side the state is
              untouched; the level tag matches the representation.  Matrix->Vector (purity test + eigh): the mixed side is
              verified (state untouched), the pure side is CUT at eigh - not decided.
twin/...      the C01 (operations), C04 (measurement probabilities) and C06 (channels) scenarios re-run with automatic
              contraction switched ON: the same reference results must hold on every path that does not reach eigh, hence
              the joint state and the distributions handed to the sampler agree with the contraction-off runs."""
from symx import checks, ref
from harness import common as cm

ASSUMPTIONS = [
    "Matrix->Vector contraction (jnp.linalg.eigh) is not encodable: paths into it are cut, the sub-claim is NOT decided",
    "isclose/allclose read as exact equality (label contraction of polarization vectors)",
    "reals, not floats; containers, levels, labels enumerated; contents symbolic (complex)",
]
BOUNDS = {"quick": "Fock cut-off 2..3, custom dimension 2..3, envelopes, product spaces of <= 3 members; every label value; twin runs on "
                   "a third of the C01 / C04 / C06 quick cases",
          "thorough": "twin runs on all C01 / C04 / C06 quick cases"}
OPTS = {"quick": {"max_paths": 64, "timeout_ms": 10000, "case_timeout_s": 900, "exact_close": True},
        "thorough": {"max_paths": 128, "timeout_ms": 30000, "case_timeout_s": 3000, "exact_close": True}}


def cases(tier):
    out = []
    # ---- expand ---------------------------------------------------------------------------------------------
    for lab in (0, 1, 2):
        w = cm.world(cm.subs(1, 0, 3), [{"kind": "own", "sub": "f0", "level": "L", "label": lab}])
        out.append({"id": f"expand/fock-label{lab}", "what": "expand", "world": w, "who": "f0", "steps": 2})
    for lab in ("H", "V", "R", "L"):
        w = cm.world(cm.subs(1, 0, 2), [{"kind": "own", "sub": "p0", "level": "L", "label": lab}])
        out.append({"id": f"expand/pol-label{lab}", "what": "expand", "world": w, "who": "p0", "steps": 2})
    for lab in (0, 2):
        w = cm.world(cm.subs(0, 1, 2, 3), [{"kind": "own", "sub": "c0", "level": "L", "label": lab}])
        out.append({"id": f"expand/custom-label{lab}", "what": "expand", "world": w, "who": "c0", "steps": 2})
    for who, S in (("f0", cm.subs(1, 0, 3)), ("p0", cm.subs(1, 0, 2)), ("c0", cm.subs(0, 1, 2, 3))):
        w = cm.world(S, [{"kind": "own", "sub": who, "level": "V"}])
        out.append({"id": f"expand/{who}-vector", "what": "expand", "world": w, "who": who, "steps": 1})
    for order in ("FP", "PF"):
        w = cm.world(cm.subs(1, 0, 2), [{"kind": "env", "env": "e0", "order": order, "level": "V"}])
        for who in ("env:e0", "f0", "p0"):
            out.append({"id": f"expand/E1-{order}/{who}", "what": "expand", "world": w, "who": who, "steps": 1})
    w = cm.world(cm.subs(1, 0, 2), [{"kind": "own", "sub": "f0", "level": "L", "label": 1},
                                    {"kind": "own", "sub": "p0", "level": "V"}])
    out.append({"id": "expand/E0-LV/env", "what": "expand", "world": w, "who": "env:e0", "steps": 2})
    S = cm.subs(2, 1, 2, 2)
    w = cm.world(S, [{"kind": "ps", "ce": 0, "members": ["p1", "c0", "f0"], "level": "V"},
                     {"kind": "own", "sub": "p0", "level": "V"}], [["e0", "e1", "c0"]])
    for who in ("ce:c0", "ps:p1", "f0", "p1", "c0"):
        out.append({"id": f"expand/ps/{who}", "what": "expand", "world": w, "who": who, "steps": 1})
    # ---- contract -------------------------------------------------------------------------------------------
    for who, S in (("f0", cm.subs(1, 0, 3)), ("p0", cm.subs(1, 0, 2)), ("c0", cm.subs(0, 1, 2, 3))):
        for lvl in ("V", "M"):
            w = cm.world(S, [{"kind": "own", "sub": who, "level": lvl}])
            for final in ("Label", "Vector"):
                out.append({"id": f"contract/{who}-{lvl}/to-{final}", "what": "contract", "world": w, "who": who, "final": final})
    for lvl in ("V", "M"):
        w = cm.world(cm.subs(1, 0, 2), [{"kind": "env", "env": "e0", "order": "PF", "level": lvl}])
        out.append({"id": f"contract/E1-PF-{lvl}/p0", "what": "contract", "world": w, "who": "p0", "final": "Label"})
    # ---- contraction of concrete density matrices (goes through the numeric eigh) -------------------------------------
    for who in ("p0", "f0", "c0", "env", "ps"):
        for st in ("maxmixed", "mixed-diag", "mixed-complex", "pure-plus", "pure-minus", "pure-basis", "nearly-pure"):
            out.append({"id": f"contract-concrete/{who}/{st}", "what": "concrete", "who": who, "state": st})
    # ---- twin runs with contraction on ------------------------------------------------------------------------
    from harness import C01, C06
    from harness import measure_common as mc

    stride = 1 if tier == "thorough" else 3

    def has_matrix(c):
        return any(b.get("level") == "M" for b in c["world"]["blocks"])

    for k, c in enumerate(C01.cases("quick")):
        # with contraction on, every Matrix-level result goes through the purity test tr(rho^2): with a symbolic operator
        # and a symbolic state that polynomial cannot be built in budget -> Matrix-level twins only for the constant gates
        if has_matrix(c) and c["op"] in ("Custom", "U3", "RX", "RY", "RZ", "PhaseShift", "Creation", "Annihilation"):
            continue
        if c["kind"] == "custom" and c["op"] == "Custom" and (c["id"].startswith("custom/C0-own-V/") or c["id"].startswith("custom/S-V/")):
            continue  # symbolic 3x3 operator on an own symbolic vector, renormalised, then the label test of contract():
            # the obligation "e_k e_k^T = U v v^T U^T / |U v|^2 given U v || e_k" is left undecided by z3 and cvc5 in budget
            # (measured: 2 x 120 s per case); the same operator inside product spaces (C1-*) IS decided and stays in
        if c["kind"] == "fock" and c["op"] == "Custom":
            continue  # a non-unitary, non-renormalising operator leaves no valid state: contraction is undefined on it
        if k % stride == 0:
            d = _with_contraction(c)
            d["id"], d["what"], d["base"] = "twin/C01/" + c["id"], "twin", "C01"
            out.append(d)
    for k, c in enumerate(mc.cases("quick")):
        if has_matrix(c):
            continue  # (also excludes the layouts of the known finding KF-C04-envelope-matrix-PF-projection)
        if k % stride == 1:
            d = _with_contraction(c)
            d["id"], d["what"], d["base"] = "twin/C04/" + c["id"], "twin", "C04"
            out.append(d)
    for k, c in enumerate(C06.cases("quick")):
        if (c["id"].startswith("two/C-ps[p1,c0,p0]-V") or c["id"].startswith("two/C-envPF+own")) and tier == "quick":
            continue  # 4-5 minutes with contraction on; thorough tier
        if k % stride == 2 and c["fam"] not in ("sym2", "mix3") and not has_matrix(c):
            # (mix3: three operators - with contraction on, the purity test of the result takes 5-15 minutes per case)
            d = _with_contraction(c)
            d["id"], d["what"], d["base"] = "twin/C06/" + c["id"], "twin", "C06"
            out.append(d)
    return out


def _cnum(B, x):
    if B.mode == "real":
        return complex(x)
    from symx import core

    return complex(core.SC.lift(x))


def _with_contraction(c):
    d = dict(c)
    w = dict(c["world"])
    w["contraction"] = True
    d["world"] = w
    return d


def scenario(B, case):
    from symx.world import World

    what = case["what"]
    if what == "twin":
        if case["base"] == "C01":
            from harness import C01

            return C01.scenario(B, case)
        if case["base"] == "C06":
            from harness import C06

            return C06.scenario(B, case)
        from harness import measure_common as mc

        return mc.scenario(B, case, "C04")

    if what == "concrete":
        return _concrete(B, case)
    W = World(B, case["world"])
    h = W.h
    EL = h.ExpansionLevel
    who = case["who"]
    if what == "expand":
        for step in range(case["steps"]):
            pre = W.snapshot()
            if who.startswith("env:"):
                W.envs[who[4:]].expand()
            elif who.startswith("ce:"):
                W.ces[0].expand(W.sub(who[3:]))
            elif who.startswith("ps:"):
                W.product_state_of(W.sub(who[3:])).expand()
            else:
                W.sub(who).expand()
            post = W.snapshot()
            checks.compare_unchanged(B, W, pre, post, f"C08/expand step {step + 1}")
            checks.check_wf(B, W, post, f"C08/expand step {step + 1} wf", unit=True)
            # the addressed object moved up exactly one level (unless it already was a matrix)
            obj = W.envs[who[4:]].fock if who.startswith("env:") else (W.sub(who.split(":")[1]) if ":" in who else W.sub(who))
            b0, b1 = pre.block_of(obj), post.block_of(obj)
            want = min(int(b0.level) + 1, int(EL.Matrix))
            B.require_structural(int(b1.level) == want, f"C08: expand moved level {b0.level!r} to {b1.level!r}")
        return
    # contract
    obj = W.sub(who)
    pre = W.snapshot()
    final = getattr(EL, case["final"])
    obj.contract(final=final)
    post = W.snapshot()
    checks.compare_unchanged(B, W, pre, post, f"C08/contract to {case['final']}")
    checks.check_wf(B, W, post, "C08/contract wf", unit=True)
    b0, b1 = pre.block_of(obj), post.block_of(obj)
    B.require_structural(int(b1.level) <= int(b0.level) and int(b1.level) >= min(int(final), int(b0.level)),
                         f"C08: contract(final={case['final']}) moved level {b0.level!r} to {b1.level!r}")


def _concrete(B, case):
    """contract() on concrete density matrices: a mixed state must stay untouched at Matrix level, a pure one may become a
    vector with the same |psi><psi| (tolerance 1e-7: the eigen-decomposition is floating point)"""
    import numpy as np

    from symx.world import World

    who, st = case["who"], case["state"]
    if who in ("p0",):
        w = cm.world(cm.subs(1, 0, 2), [{"kind": "own", "sub": "p0", "level": "M"}])
        d = 2
    elif who == "f0":
        w = cm.world(cm.subs(1, 0, 3), [{"kind": "own", "sub": "f0", "level": "M"}])
        d = 3
    elif who == "c0":
        w = cm.world(cm.subs(0, 1, 2, 2), [{"kind": "own", "sub": "c0", "level": "M"}])
        d = 2
    elif who == "env":
        w = cm.world(cm.subs(1, 0, 2), [{"kind": "env", "env": "e0", "order": "PF", "level": "M"}])
        d = 4
    else:
        w = cm.world(cm.subs(1, 1, 2, 2), [{"kind": "ps", "ce": 0, "members": ["p0", "c0"], "level": "M"}], [["e0", "c0"]])
        d = 4
    W = World(B, w)
    h = W.h
    EL = h.ExpansionLevel
    rho = {"maxmixed": np.eye(d) / d,
           "mixed-diag": np.diag([0.7, 0.3] + [0.0] * (d - 2)),
           "mixed-complex": None,
           "pure-plus": None,
           "pure-minus": None,
           "nearly-pure": None,
           "pure-basis": np.diag([0.0, 1.0] + [0.0] * (d - 2))}[st]
    if st == "nearly-pure":
        # purity 1 - 5e-6: inside the band where differently written closeness tests (absolute 1e-6 vs isclose with its
        # default relative tolerance) disagree; whatever the implementation decides, the state must survive
        v = np.zeros((d, 1), dtype=complex)
        v[0, 0], v[1, 0] = 0.6, 0.8j
        w_ = np.zeros((d, 1), dtype=complex)
        w_[0, 0], w_[1, 0] = 0.8, -0.6j
        eps = 2.5e-6
        rho = (1 - eps) * (v @ v.conj().T) + eps * (w_ @ w_.conj().T)
    if st == "pure-minus":  # real amplitudes with a relative sign, first component non-zero
        v = np.zeros((d, 1), dtype=complex)
        v[0, 0], v[1, 0] = 0.6, -0.8
        rho = v @ v.conj().T
    if st == "mixed-complex":
        rho = np.zeros((d, d), dtype=complex)
        rho[0, 0], rho[1, 1], rho[0, 1], rho[1, 0] = 0.6, 0.4, 0.2 - 0.1j, 0.2 + 0.1j
    if st == "pure-plus":
        v = np.zeros((d, 1), dtype=complex)
        v[0, 0], v[d - 1, 0] = 0.6, 0.8j
        rho = v @ v.conj().T
    arr = B.jnp.array(rho)
    if who == "env":
        holder = W.envs["e0"]
        obj = holder
    elif who == "ps":
        holder = W.product_state_of(W.sub("p0"))
        obj = holder
    else:
        holder = W.sub(who)
        obj = holder
    holder.state = arr
    pre = W.snapshot()
    if who == "ps":
        obj.contract()
    elif who == "env":
        obj.contract()
    else:
        obj.contract(final=EL.Vector)
    post = W.snapshot()
    if st == "nearly-pure":
        members = list(post.block_of(W.sub(who) if who in ("c0", "f0") else W.sub("p0")).members)
        r0, _ = pre.joint(members)
        r1, _ = post.joint(members)
        a0 = np.array([[complex(_cnum(B, x)) for x in row] for row in r0])
        a1 = np.array([[complex(_cnum(B, x)) for x in row] for row in r1])
        fid = float(np.real(np.trace(a0 @ a1)))
        B.require_structural(fid >= 1 - 1e-4, "C08: contract() of a nearly pure state (purity 1 - 5e-6) returned a state that is "
                                              "not the one held before", detail={"overlap": fid})
        checks.check_wf(B, W, post, "C08/contract-concrete wf", unit=False)
        return
    checks.compare_unchanged(B, W, pre, post, f"C08/contract of a concrete {st} state")
    checks.check_wf(B, W, post, "C08/contract-concrete wf", unit=True)
    b1 = post.block_of(W.sub(who) if who in ("c0", "f0") else W.sub("p0"))
    if st.startswith("mixed") or st == "maxmixed":
        B.require_structural(b1.level == EL.Matrix, f"C08: a mixed state was contracted to level {b1.level!r}")
