"""C18 - distinct subsystems are never confused, even when they hold equal values.

Worlds with two or three Fock subsystems (different envelopes of one composite envelope) that hold the SAME label, or
independent symbolic vectors / matrices - then every `==` / `in` between different Fock objects (Fock.__eq__ compares
by value through allclose) is a solver fork "values coincide / differ" and both sides are explored (metamorphic twin).
Actions: projective measurement of several / of the second subsystem, combine, CX on the partners, beam splitter,
resize of the second Fock, Kraus and POVM on the second Fock, partial trace.
Obligations (on both sides of every fork): the objects measured / combined / resized / reported are exactly the ones
passed (by identity), outcome dictionaries hold one entry per specified object, the first Fock is untouched when only
the second is addressed, and the joint state follows the specification computed from object identity alone (the C05
collapse obligations for measurements)."""
from symx import checks, ref
from harness import common as cm
from harness import measure_common as mc

ASSUMPTIONS = [
    "worlds and actions enumerated; vector / matrix contents symbolic and independent, so coincidence of values is a "
    "solver-decided fork; equal labels enumerated",
    "reals, not floats; contraction off; isclose/allclose read as exact equality",
]
BOUNDS = {"quick": "3 envelopes (Fock cut-off 2); Fock values: equal labels 0/0/0 and 1/1/1, independent vectors, independent matrices; "
                   "24 actions (incl. a merge of two composite envelopes, envelope-level calls naming the Fock of another envelope)",
          "thorough": "same"}
OPTS = {"quick": {"max_paths": 64, "timeout_ms": 10000, "case_timeout_s": 900, "exact_close": True},
        "thorough": {"max_paths": 128, "timeout_ms": 30000, "case_timeout_s": 1800, "exact_close": True}}


def _world(kind, split=False):
    S = cm.subs(3, 0, 2)
    comp = [["e0"], ["e1", "e2"]] if split else [["e0", "e1", "e2"]]
    if kind.startswith("label"):
        lab = int(kind[-1])
        blocks = [{"kind": "own", "sub": f"f{i}", "level": "L", "label": lab} for i in range(3)]
    elif kind == "vector":
        blocks = [{"kind": "own", "sub": f"f{i}", "level": "V"} for i in range(3)]
    else:
        blocks = [{"kind": "own", "sub": f"f{i}", "level": "M"} for i in range(2)] + [{"kind": "own", "sub": "f2", "level": "L", "label": 0}]
    return cm.world(S, blocks, comp)


ACTIONS = ["measure-all-sep", "measure-all", "measure-second-sep-nd", "measure-second", "combine", "combine-three", "cx-partners",
           "beamsplitter", "resize-second", "kraus-second", "povm-second", "trace_out-second", "op-second", "kraus-both", "povm-both",
           "reorder-both", "expand-second",
           # an envelope-level call on e0 that names the Fock of ANOTHER envelope (holding an equal value on one side of the fork)
           # two composite envelopes whose Focks hold equal values are merged: every subsystem is registered once, by identity
           "merge-register",
           "foreign-kraus", "foreign-povm", "foreign-op", "foreign-measure", "foreign-reorder", "foreign-trace_out"]


def cases(tier):
    out = []
    for kind in ("label0", "label1", "vector", "matrix"):
        for act in ACTIONS:
            if kind == "matrix" and act in ("beamsplitter", "combine-three"):
                continue
            out.append({"id": f"{kind}/{act}", "values": kind, "act": act})
    return out


def scenario(B, case):
    import numpy as np

    from photon_weave.operation import CompositeOperationType, FockOperationType, Operation

    from symx.explore import Cut
    from symx.world import World

    act = case["act"]
    w = _world(case["values"], split=(act == "merge-register"))
    if act.startswith("measure"):
        targets = ["f0", "f1", "f2"] if "all" in act else ["f1"]
        c = {"world": w, "targets": targets, "entry": "composite", "sep": "sep" in act, "dest": not act.endswith("-nd")}
        return mc.scenario(B, c, "C05")
    W = World(B, w)
    if act.startswith("foreign-"):
        from harness.C17 import _foreign

        return _foreign(B, W, {"foreign": "f1", "act": act.split("-", 1)[1]}, tag="C18")
    h = W.h
    if act == "merge-register":
        subs = [W.sub(n) for n in ("f0", "p0", "f1", "p1", "f2", "p2")]
        pre = W.snapshot()
        ce = h.CompositeEnvelope(W.ces[0], W.ces[1])
        W.ces.append(ce)
        reg = list(ce.state_objs)
        for x in subs:
            n = sum(1 for r in reg if r is x)
            B.require_structural(n == 1, f"C18: after merging two composite envelopes {W.name_of(x)} is registered {n} times "
                                         f"(registered: {[W.name_of(r) for r in reg]})")
        f1 = W.sub("f1")
        d0 = int(W.sub("f0").dimensions)
        ret = ce.resize_fock(4, f1)
        post = W.snapshot()
        B.require_structural(bool(ret) and int(f1.dimensions) == 4 and int(W.sub("f0").dimensions) == d0,
                             f"C18: resize_fock(4, f1) through the merged composite -> {ret!r}; f0={W.sub('f0').dimensions}, f1={f1.dimensions}")
        checks.compare_unchanged(B, W, pre, post, "C18/merge-register")
        checks.check_wf(B, W, post, "C18/wf", unit=False, numeric=False)
        return
    ce = W.ces[0]
    f0, f1, f2 = W.sub("f0"), W.sub("f1"), W.sub("f2")
    p0, p1 = W.sub("p0"), W.sub("p1")
    pre = W.snapshot()
    name = W.name_of
    try:
        if act == "combine":
            ce.combine(f0, f1)
            post = W.snapshot()
            b = post.block_of(f0)
            B.require_structural([id(m) for m in b.members] == [id(f0), id(f1)],
                                 f"C18: combine(f0, f1) produced the block {[name(m) for m in b.members]}")
            B.require_structural(post.block_of(f2).kind == "own", "C18: combine(f0, f1) moved f2")
            checks.compare_unchanged(B, W, pre, post, "C18/combine")
        elif act == "combine-three":
            ce.combine(f2, f0, f1)
            post = W.snapshot()
            b = post.block_of(f0)
            B.require_structural(sorted(id(m) for m in b.members) == sorted([id(f0), id(f1), id(f2)]),
                                 f"C18: combine(f2, f0, f1) produced the block {[name(m) for m in b.members]}")
            checks.compare_unchanged(B, W, pre, post, "C18/combine-three")
        elif act == "cx-partners":
            ce.apply_operation(Operation(CompositeOperationType.CXPolarization), p1, p0)
            post = W.snapshot()
            for f in (f0, f1, f2):
                B.require_structural(post.block_of(f).kind == "own", f"C18: CX on the polarizations moved {name(f)}")
            checks.compare_joint(B, W, pre, post, [p1, p0], None, "C18/cx", renorm=True,
                                 operator=lambda d, p: _cx(B))
        elif act == "beamsplitter":
            import math

            ce.apply_operation(Operation(CompositeOperationType.NonPolarizingBeamSplitter, eta=math.pi / 4), f1, f0)
            post = W.snapshot()
            b = post.block_of(f0)
            B.require_structural(sorted(id(m) for m in b.members) == sorted([id(f0), id(f1)]),
                                 f"C18: beam splitter on (f1, f0) produced the block {[name(m) for m in b.members]}")
            B.require_structural(post.block_of(f2).kind == "own" and int(f0.dimensions) == int(f1.dimensions),
                                 "C18: beam splitter touched f2 or left unequal cut-offs")
        elif act == "resize-second":
            d0, d2 = int(f0.dimensions), int(f2.dimensions)
            ret = ce.resize_fock(4, f1)
            post = W.snapshot()
            B.require_structural(bool(ret) and int(f1.dimensions) == 4 and int(f0.dimensions) == d0 and int(f2.dimensions) == d2,
                                 f"C18: resize_fock(4, f1) -> {ret!r}; dimensions f0={f0.dimensions}, f1={f1.dimensions}, f2={f2.dimensions}")
            checks.compare_unchanged(B, W, pre, post, "C18/resize")
        elif act == "kraus-second":
            K0, K1 = np.diag([1.0, 0.6]), np.array([[0, 0.8], [0, 0]])
            ce.apply_kraus([B.jnp.array(K0), B.jnp.array(K1)], f1)
            post = W.snapshot()
            Ks = [cm.mat(B, [[1, 0], [0, 0.6]]), cm.mat(B, [[0, 0.8], [0, 0]])]
            checks.compare_joint(B, W, pre, post, [f1], lambda rho, d, pos: ref.kraus(rho, d, pos, Ks), "C18/kraus on f1")
        elif act == "povm-second":
            M0, M1 = np.diag([1.0, 0.6]), np.diag([0.0, 0.8])
            res = ce.measure_POVM([B.jnp.array(M0), B.jnp.array(M1)], f1, destructive=False)
            post = W.snapshot()
            k = int(res[0])
            Ms = [cm.mat(B, [[1, 0], [0, 0.6]]), cm.mat(B, [[0, 0], [0, 0.8]])]
            checks.compare_joint(B, W, pre, post, [f1], lambda rho, d, pos: ref.apply_op(rho, d, pos, Ms[k]), "C18/povm on f1",
                                 renorm=True)
            B.require_structural(not f0.measured and not f1.measured and not f2.measured, "C18: a non-destructive POVM destroyed a Fock")
        elif act == "kraus-both":
            K0 = np.kron(np.diag([1.0, 0.6]), np.eye(2))
            K1 = np.kron(np.array([[0, 0.8], [0, 0]]), np.array([[0, 1.0], [1.0, 0]]))
            ce.apply_kraus([B.jnp.array(K0), B.jnp.array(K1)], f1, f0)
            post = W.snapshot()
            Ks = [ref.kron(cm.mat(B, [[1, 0], [0, 0.6]]), cm.identity(B, 2)),
                  ref.kron(cm.mat(B, [[0, 0.8], [0, 0]]), cm.mat(B, [[0, 1], [1, 0]]))]
            checks.compare_joint(B, W, pre, post, [f1, f0], lambda rho, d, pos: ref.kraus(rho, d, pos, Ks), "C18/kraus on (f1, f0)")
            B.require_structural(post.block_of(f2).kind == "own", "C18: a channel on (f1, f0) moved f2")
        elif act == "povm-both":
            M0 = np.diag([1.0, 0.6, 0.6, 0.0])
            M1 = np.diag([0.0, 0.8, 0.8, 1.0])
            res = ce.measure_POVM([B.jnp.array(M0), B.jnp.array(M1)], f1, f0, destructive=False)
            post = W.snapshot()
            k = int(res[0])
            Ms = [cm.mat(B, [[1, 0, 0, 0], [0, 0.6, 0, 0], [0, 0, 0.6, 0], [0, 0, 0, 0]]),
                  cm.mat(B, [[0, 0, 0, 0], [0, 0.8, 0, 0], [0, 0, 0.8, 0], [0, 0, 0, 1]])]
            checks.compare_joint(B, W, pre, post, [f1, f0], lambda rho, d, pos: ref.apply_op(rho, d, pos, Ms[k]), "C18/povm on (f1, f0)",
                                 renorm=True)
            B.require_structural(post.block_of(f2).kind == "own", "C18: a POVM on (f1, f0) moved f2")
        elif act == "reorder-both":
            ce.combine(f0, f1, p0)
            ce.reorder(f1, f0)
            post = W.snapshot()
            b = post.block_of(f0)
            B.require_structural([id(m) for m in b.members[:2]] == [id(f1), id(f0)],
                                 f"C18: reorder(f1, f0) gave the block order {[name(m) for m in b.members]}")
            checks.compare_unchanged(B, W, pre, post, "C18/reorder")
        elif act == "expand-second":
            ce.combine(f1, p1)
            ce.expand(f1)
            post = W.snapshot()
            B.require_structural(post.block_of(f0).level == pre.block_of(f0).level and post.block_of(f0).kind == "own",
                                 "C18: expand(f1) changed f0")
            checks.compare_unchanged(B, W, pre, post, "C18/expand")
        elif act == "trace_out-second":
            ce.combine(f0, f1, p0)
            mid = W.snapshot()
            got = ce.trace_out(f1)
            post = W.snapshot()
            checks.compare_unchanged(B, W, mid, post, "C18/trace_out")
            rho, dims = mid.joint([f0, f1, p0])
            want, _ = ref.partial_trace(rho, dims, [1])
            g = B.np(got)
            if g.shape == (dims[1], 1):
                g = ref.outer(g)
            if mid.is_pure_level([f0]):
                pass  # vector-level partial traces are the known finding of C02; only the routing is checked here
            else:
                B.require_zero([g - want], "C18: trace_out(f1) returned the reduced state of another subsystem", "partial-trace")
            B.require_structural(post.block_of(f1).members[0] is f1, "C18: trace_out(f1) did not bring f1 to the front of its block")
        elif act == "op-second":
            f1.apply_operation(Operation(FockOperationType.Creation))
            post = W.snapshot()
            checks.compare_joint(B, W, pre, post, [f1], None, "C18/creation on f1", renorm=True,
                                 operator=lambda d, p: cm.creation(B, d[p[0]]), headroom=1)
        else:
            raise ValueError(act)
    except ValueError as e:
        if "entirely composed of zeros" in str(e):
            raise Cut("all-zero rejection (subject of C17)")
        raise
    checks.check_wf(B, W, W.snapshot(), "C18/wf", unit=False, numeric=False)


def _cx(B):
    like = B.like()
    M = ref.zeros((4, 4), like)
    for i, j in ((0, 0), (1, 1), (2, 3), (3, 2)):
        M[i, j] = ref.const(1, like)
    return M
