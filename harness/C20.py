"""C20 - product spaces are joined only when needed; bystander blocks are untouched.

One structural case = prior partition (two worlds with several storage blocks: composite product spaces at vector and
matrix level, a combined envelope, own states) x action x operand choice.  Contents are symbolic, so value-dependent
routing (list membership through Fock.__eq__, support guards) is decided by the solver.
Obligations (discrete, evaluated on every feasible path): an action on several subsystems leaves them in ONE block whose
member set is exactly the union of the blocks that held them; an action on a single subsystem does not enlarge its
block; a measured subsystem no longer shares a block; every block that contains none of the addressed subsystems has
the same members in the same order, the same representation level and shape, and the identical array (same object or
entrywise identical terms)."""
from symx import checks
from harness import common as cm

ASSUMPTIONS = [
    "partitions, actions and operand choices are the enumerated bound; block contents symbolic",
    "the assertion is discrete (partition delta, identity of bystander arrays); the solver decides value-dependent "
    "branches and path feasibility",
    "for measurements the envelope partner of an addressed member counts as addressed unless separate_measurement",
]
BOUNDS = {"quick": "5 worlds (one with arbitrary un-normalised block contents, one with contraction on and a pure matrix-level bystander; up to three product spaces in one composite) x ~40 actions (single operations, CX, Kraus on 1/2 subsystems, POVM, projective measurement, partial "
                   "trace, resize, combine, reorder) over 3 envelopes + 1 custom state",
          "thorough": "same"}
OPTS = {"quick": {"max_paths": 32, "timeout_ms": 10000, "case_timeout_s": 900, "exact_close": True},
        "thorough": {"max_paths": 64, "timeout_ms": 30000, "case_timeout_s": 1800, "exact_close": True}}


def _worlds():
    S = cm.subs(3, 1, 2, 2)
    comp = [["e0", "e1", "e2", "c0"]]
    return {
        "A": cm.world(S, [{"kind": "ps", "ce": 0, "members": ["p0", "c0"], "level": "V"},
                          {"kind": "ps", "ce": 0, "members": ["f1", "p1"], "level": "V"},
                          {"kind": "env", "env": "e2", "order": "PF", "level": "V"},
                          {"kind": "own", "sub": "f0", "level": "V"}], comp),
        "B": cm.world(S, [{"kind": "ps", "ce": 0, "members": ["p0", "c0"], "level": "M"},
                          {"kind": "ps", "ce": 0, "members": ["f1", "p1"], "level": "V"},
                          {"kind": "own", "sub": "p2", "level": "V"},
                          {"kind": "own", "sub": "f2", "level": "L", "label": 1}], comp),
        "C": cm.world(S, [{"kind": "ps", "ce": 0, "members": ["p0", "c0"], "level": "V"},
                          {"kind": "ps", "ce": 0, "members": ["f1", "p1"], "level": "V"},
                          {"kind": "ps", "ce": 0, "members": ["p2", "f2"], "level": "V"},
                          {"kind": "own", "sub": "f0", "level": "V"}], comp),
        # "bit-identical amplitudes": a bystander that is re-normalised is unchanged over the reals but not in floating
        # point.  Here every block holds an arbitrary complex array (NOT normalised - a superset of the stored states, the
        # library never tests stored states for unit norm), so x / |x| differs from x and is reported; x * 1 is not.
        "F": cm.world(S, [{"kind": "ps", "ce": 0, "members": ["p0", "c0"], "level": "V", "free": True},
                          {"kind": "ps", "ce": 0, "members": ["f1", "p1"], "level": "V", "free": True},
                          {"kind": "ps", "ce": 0, "members": ["p2", "f2"], "level": "M", "free": True},
                          {"kind": "own", "sub": "f0", "level": "V"}], comp),
        # contraction switched on, one bystander product space holds a PURE state in matrix form (concrete numbers): a
        # bystander that is "measured with no targets" / re-contracted changes its representation
        "G": dict(cm.world(S, [{"kind": "ps", "ce": 0, "members": ["p0", "c0"], "level": "M", "concrete": "pure"},
                               {"kind": "ps", "ce": 0, "members": ["f1", "p1"], "level": "V"},
                               {"kind": "own", "sub": "p2", "level": "V"},
                               {"kind": "own", "sub": "f0", "level": "V"}], comp), contraction=True),
    }


ACTIONS = [
    ("op", ["p0"]), ("op", ["c0"]), ("op", ["f1"]), ("op", ["p1"]), ("op", ["p2"]), ("op", ["f0"]), ("op-ce", ["p0"]), ("op-ce", ["p2"]),
    ("cx", ["p0", "p1"]), ("cx", ["p1", "p2"]), ("cx", ["p2", "p0"]), ("cx", ["p0", "p2"]),
    ("kraus", ["p1"]), ("kraus", ["p2"]), ("kraus", ["c0", "p2"]), ("kraus", ["p1", "p0"]),
    ("povm", ["p0"]), ("povm", ["p2"]), ("povm", ["p1", "p2"]),
    ("measure-sep", ["p0"]), ("measure-sep", ["f1"]), ("measure-sep-nd", ["p1"]), ("measure", ["p1"]), ("measure", ["c0"]),
    ("measure", ["p2"]), ("measure-nd", ["p0"]),
    ("trace_out", ["p0"]), ("trace_out", ["p1", "p0"]), ("trace_out", ["c0"]), ("trace_out-state", ["p1"]),
    ("resize", ["f1"]), ("resize", ["f0"]), ("resize", ["f2"]),
    ("combine", ["p0", "p1"]), ("combine", ["p2", "c0"]), ("combine", ["f0", "f2"]), ("reorder", ["c0", "p0"]), ("reorder", ["p1"]),
    ("expand", ["p1"]), ("expand", ["c0"]),
]


def cases(tier):
    out = []
    for wid in ("A", "B", "C", "F", "G"):
        for act, tg in ACTIONS:
            if wid == "F" and act in ("trace_out", "trace_out-state", "expand", "op", "op-ce", "cx", "combine", "reorder", "resize"):
                if (act, tg) not in ((("op", ["p1"]), ("cx", ["p0", "p1"]), ("combine", ["p0", "p1"]), ("resize", ["f1"]))):
                    continue  # (worlds F / G repeat the measurement / channel / POVM actions and one action of each other kind)
            if wid == "G" and (any(t in ("p0", "c0") for t in tg) or act in ("expand", "reorder", "trace_out-state") or
                               (act == "povm" and len(tg) > 1)):
                continue  # the concrete pure block is the bystander of this world
            out.append({"id": f"{wid}/{act}/{','.join(tg)}", "world": wid, "act": act, "targets": tg})
    return out


def _do(B, W, act, ts):
    import numpy as np

    from photon_weave.operation import (CompositeOperationType, CustomStateOperationType, FockOperationType, Operation,
                                        PolarizationOperationType)

    h = W.h
    ce = W.ces[0]
    if act in ("op", "op-ce"):
        s = ts[0]
        if isinstance(s, h.Polarization):
            op = Operation(PolarizationOperationType.H)
        elif isinstance(s, h.Fock):
            op = Operation(FockOperationType.PhaseShift, phi=0.25)
        else:
            d = int(s.dimensions)
            M = np.zeros((d, d))
            for i in range(d):
                M[(i + 1) % d, i] = 1
            op = Operation(CustomStateOperationType.Custom, operator=B.jnp.array(M))
        if act == "op":
            s.apply_operation(op)
        else:
            ce.apply_operation(op, s)
    elif act == "cx":
        ce.apply_operation(Operation(CompositeOperationType.CXPolarization), *ts)
    elif act == "kraus":
        D = 1
        for t in ts:
            D *= int(t.dimensions)
        K0 = np.eye(D) * (0.75 ** 0.5)
        K1 = np.zeros((D, D))
        for i in range(D):
            K1[(i + 1) % D, i] = 0.25 ** 0.5
        ce.apply_kraus([B.jnp.array(K0), B.jnp.array(K1)], *ts)
    elif act == "povm":
        D = 1
        for t in ts:
            D *= int(t.dimensions)
        M0 = np.diag([1.0] + [0.6] * (D - 1))
        M1 = np.diag([0.0] + [0.8] * (D - 1))
        ce.measure_POVM([B.jnp.array(M0), B.jnp.array(M1)], *ts, destructive=False)
    elif act.startswith("measure"):
        ce.measure(*ts, separate_measurement="sep" in act, destructive=not act.endswith("-nd"))
    elif act == "trace_out":
        ce.trace_out(*ts)
    elif act == "trace_out-state":
        ts[0].trace_out()
    elif act == "resize":
        ce.resize_fock(3, ts[0])
    elif act == "combine":
        ce.combine(*ts)
    elif act == "reorder":
        ce.reorder(*ts)
    elif act == "expand":
        ce.expand(*ts)
    else:
        raise ValueError(act)


def scenario(B, case):
    from symx.explore import Cut
    from symx.world import World

    from harness.measure_common import partner

    W = World(B, _worlds()[case["world"]])
    act = case["act"]
    ts = [W.sub(n) for n in case["targets"]]
    addressed = list(ts)
    if act.startswith("measure") and "sep" not in act:
        for t in ts:
            p = partner(W, t)
            if p is not None and not any(p is x for x in addressed):
                addressed.append(p)
    pre = W.snapshot()
    try:
        _do(B, W, act, ts)
    except ValueError as e:
        if "entirely composed of zeros" in str(e):
            raise Cut("all-zero rejection (subject of C17)")
        raise
    post = W.snapshot()
    name = W.name_of
    aset = {id(x) for x in addressed}
    # ---- bystander blocks -------------------------------------------------------------------------------------------
    for b in pre.blocks:
        if any(id(m) in aset for m in b.members):
            continue
        nb = post.block_of(b.members[0])
        label = f"C20: bystander block {[name(m) for m in b.members]}"
        if nb is None:
            B.require_structural(False, label + " disappeared")
            continue
        same = [id(m) for m in nb.members] == [id(m) for m in b.members]
        B.require_structural(same, label + f" became {[name(m) for m in nb.members]}")
        B.require_structural(nb.level == b.level and nb.kind == b.kind and list(nb.dims) == list(b.dims),
                             label + f" changed representation: {b.kind}/{b.level!r}/{b.dims} -> {nb.kind}/{nb.level!r}/{nb.dims}")
        if same and nb.level == b.level and list(nb.dims) == list(b.dims) and nb.array is not b.array:
            if hasattr(b.array, "shape") and hasattr(nb.array, "shape"):
                if tuple(nb.array.shape) != tuple(b.array.shape):
                    B.require_structural(False, label + f" changed shape {tuple(b.array.shape)} -> {tuple(nb.array.shape)}")
                else:
                    B.require_zero([B.np(nb.array) - B.np(b.array)], label + " has different amplitudes", "bystander-array")
            else:
                B.require_structural(nb.array == b.array, label + " changed its label")
    # ---- addressed subsystems --------------------------------------------------------------------------------------
    live_post = {id(x) for x in post.live()}
    alive = [t for t in addressed if id(t) in live_post]
    joins = act in ("cx", "combine") or (act in ("kraus", "povm", "trace_out") and len(ts) > 1)
    if joins and alive:
        nb = post.block_of(alive[0])
        B.require_structural(all(any(m is t for m in nb.members) for t in alive),
                             f"C20: {act} left its operands in different blocks")
        want = set()
        for t in ts:
            pb = pre.block_of(t)
            want |= {id(m) for m in pb.members}
        B.require_structural({id(m) for m in nb.members} == want,
                             f"C20: {act} on {case['targets']} produced the block {[name(m) for m in nb.members]}, expected exactly "
                             f"the union of the operands' blocks")
    if not joins and not act.startswith("measure"):
        for t in alive:
            pb, nb = pre.block_of(t), post.block_of(t)
            B.require_structural({id(m) for m in nb.members} <= {id(m) for m in pb.members},
                                 f"C20: {act} on the single subsystem {name(t)} enlarged its block "
                                 f"{[name(m) for m in pb.members]} -> {[name(m) for m in nb.members]}")
            if len(ts) == 1 and act in ("op", "op-ce", "resize", "expand"):
                # ... and does not move it into a NEW composite product space (own state / combined envelope stay where they are)
                B.require_structural(not (nb.kind == "ps" and pb.kind != "ps"),
                                     f"C20: {act} on the single subsystem {name(t)} created a composite product space "
                                     f"{[name(m) for m in nb.members]} out of its {pb.kind} block")
    if act.startswith("measure"):
        for t in alive:
            nb = post.block_of(t)
            B.require_structural(len(nb.members) == 1, f"C20: measured {name(t)} still shares the block {[name(m) for m in nb.members]}")
    checks.check_wf(B, W, post, "C20/wf", unit=False, numeric=False)
