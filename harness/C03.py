"""C03 - multi-subsystem operators bind to operands in the order given.

Composite operations (CX, CZ, SWAP, CSWAP and an Expression with a fully symbolic operator over mixed
operand types) are applied through CompositeEnvelope.apply_operation for every ordered operand choice and
every prior storage layout in the bound; the joint post-state must equal the reference embedding with
tensor factor k on the k-th operand (trace-normalised), everything else untouched."""
import itertools

from symx import checks, ref
from harness import common as cm

ASSUMPTIONS = [
    "reals, not floats; contraction off (eigh cut)",
    "the all-zero rejection path is cut after the guard (subject of C17)",
    "beam splitter operand binding is checked in C11 (needs the expm treatment)",
    "engine E2 (CrossHair): apply_operator_vector/_matrix with symbolic n <= 5 (4 for two operands at matrix level) and symbolic "
    "operand positions, per-condition timeout 90 s, reachability twin refuted",
]
BOUNDS = {
    "quick": "2 envelopes (Fock cut-off 2) + 1 custom state (dim 2); operands: ordered pairs of {p0,p1,c0}; layouts: own / combined "
             "envelope / one or two product spaces in any order; vector level with a fully symbolic 4x4 operator, matrix level with "
             "the concrete gates; CSWAP over 3 envelopes (2 operand orders)",
    "thorough": "as quick plus symbolic 4x4 operator at matrix level, all 6 CSWAP operand orders, Fock operand in an Expression",
}
OPTS = {"quick": {"max_paths": 32, "timeout_ms": 10000, "case_timeout_s": 1500},
        "thorough": {"max_paths": 64, "timeout_ms": 30000, "case_timeout_s": 3000}}


def _layouts(tier):
    """(id, world) over 2 envelopes + 1 custom; operands are chosen from p0, p1, c0"""
    S = cm.subs(2, 1, 2, 2)
    comp = [["e0", "e1", "c0"]]
    L = []
    L.append(("own-V", cm.world(S, [{"kind": "own", "sub": "p0", "level": "V"}, {"kind": "own", "sub": "p1", "level": "V"},
                                    {"kind": "own", "sub": "c0", "level": "V"}], comp)))
    L.append(("own-mixed", cm.world(S, [{"kind": "own", "sub": "p0", "level": "M"}, {"kind": "own", "sub": "p1", "level": "V"}], comp)))
    L.append(("env-PF+own", cm.world(S, [{"kind": "env", "env": "e0", "order": "PF", "level": "V"},
                                         {"kind": "own", "sub": "p1", "level": "V"},
                                         {"kind": "own", "sub": "c0", "level": "V"}], comp)))
    L.append(("env-FP+env-PF", cm.world(S, [{"kind": "env", "env": "e0", "order": "FP", "level": "V"},
                                           {"kind": "env", "env": "e1", "order": "PF", "level": "V"}], comp)))
    L.append(("ps[p1,c0,p0]-V", cm.world(S, [{"kind": "ps", "ce": 0, "members": ["p1", "c0", "p0"], "level": "V"}], comp)))
    L.append(("ps[p0,c0]+ps[f1,p1]-V", cm.world(S, [{"kind": "ps", "ce": 0, "members": ["p0", "c0"], "level": "V"},
                                                   {"kind": "ps", "ce": 0, "members": ["f1", "p1"], "level": "V"}], comp)))
    L.append(("ps[c0,p1,p0]-M", cm.world(S, [{"kind": "ps", "ce": 0, "members": ["c0", "p1", "p0"], "level": "M"}], comp)))
    L.append(("ps[p0,p1]-M+own", cm.world(S, [{"kind": "ps", "ce": 0, "members": ["p0", "p1"], "level": "M"},
                                              {"kind": "own", "sub": "c0", "level": "V"}], comp)))
    return L


def cases(tier):
    out = []
    thorough = tier == "thorough"
    for lid, w in _layouts(tier):
        matrix = lid.endswith("-M") or "M+" in lid or lid == "own-mixed"
        for a, b in (("p0", "p1"), ("p1", "p0")):
            for g in ("CX", "CZ", "SWAP"):
                out.append({"id": f"{g}/{lid}/{a},{b}", "world": w, "op": g, "operands": [a, b]})
        pairs = [("p0", "p1"), ("p1", "p0"), ("p0", "c0"), ("c0", "p1")]
        for a, b in pairs:
            if matrix and not thorough:
                continue
            out.append({"id": f"EXPR/{lid}/{a},{b}", "world": w, "op": "EXPR", "operands": [a, b]})
    # user expression written as a 3-argument kron over three operands of mixed type (factor k <-> operand k)
    for lid, w in _layouts(tier):
        # (Vector level only: three fully symbolic operators on an 8x8 symbolic density matrix did not finish in 15 minutes)
        if lid in ("own-V", "ps[p1,c0,p0]-V", "ps[p0,c0]+ps[f1,p1]-V"):
            for o in (("p0", "p1", "c0"), ("c0", "p0", "p1"), ("p1", "c0", "p0")):
                if not thorough and lid == "own-V" and o != ("p1", "c0", "p0"):
                    continue  # (~100 s each: three fully symbolic operators on an 8-dimensional symbolic state)
                out.append({"id": f"EXPR3/{lid}/{','.join(o)}", "world": w, "op": "EXPR3", "operands": list(o)})
    # CSWAP over three envelopes
    S3 = cm.subs(3, 0, 2, 2)
    comp3 = [["e0", "e1", "e2"]]
    w3 = [("own3", cm.world(S3, [{"kind": "own", "sub": "p0", "level": "V"}, {"kind": "own", "sub": "p1", "level": "V"},
                                 {"kind": "own", "sub": "p2", "level": "V"}], comp3)),
          ("ps[p2,p0,p1]-V", cm.world(S3, [{"kind": "ps", "ce": 0, "members": ["p2", "p0", "p1"], "level": "V"}], comp3)),
          ("ps[p1,p2]-V+env", cm.world(S3, [{"kind": "ps", "ce": 0, "members": ["p1", "p2"], "level": "V"},
                                           {"kind": "env", "env": "e0", "order": "PF", "level": "V"}], comp3))]
    orders = list(itertools.permutations(["p0", "p1", "p2"]))
    if not thorough:
        orders = [("p0", "p1", "p2"), ("p2", "p0", "p1"), ("p1", "p2", "p0")]
    for lid, w in w3:
        for o in orders:
            out.append({"id": f"CSWAP/{lid}/{','.join(o)}", "world": w, "op": "CSWAP", "operands": list(o)})
    # engine E2: the operand-order aware einsum generators with SYMBOLIC numbers of subsystems and operand positions
    for fn in ("apply_operator_vector_two", "apply_operator_vector_one", "apply_operator_matrix_two", "apply_operator_matrix_one"):
        out.append({"id": f"crosshair/{fn}", "op": "crosshair", "fn": fn})
    out.append({"id": "crosshair/reachability_twin", "op": "crosshair", "fn": "reachability_twin"})
    return out


def _gate_matrix(B, g):
    n = 8 if g == "CSWAP" else 4
    like = B.like()
    want = ref.zeros((n, n), like)
    nb = 3 if n == 8 else 2
    for i in range(n):
        bits = [(i >> (nb - 1 - k)) & 1 for k in range(nb)]  # bits[0] = first operand
        v = 1
        if g == "CX":
            j = i ^ 1 if bits[0] else i
        elif g == "CZ":
            j, v = i, (-1 if bits[0] and bits[1] else 1)
        elif g == "SWAP":
            j = (bits[1] << 1) | bits[0]
        else:
            j = ((bits[0] << 2) | (bits[2] << 1) | bits[1]) if bits[0] else i
        want[j, i] = ref.const(v, like)
    return want


def scenario(B, case):
    from photon_weave.operation import CompositeOperationType, Operation

    from symx.explore import Cut
    from symx.world import World

    if case["op"] == "crosshair":
        return cm.crosshair_condition(B, "einsum_conditions.py", case["fn"],
                                      expect="refuted" if case["fn"] == "reachability_twin" else "confirmed")
    W = World(B, case["world"])
    ops_ = [W.sub(n) for n in case["operands"]]
    g = case["op"]
    if g == "EXPR3":
        Ms = [B.operator(f"O{k}", int(o.dimensions)) for k, o in enumerate(ops_)]
        types = tuple("Polarization" if n.startswith("p") else ("CustomState" if n.startswith("c") else "Fock")
                      for n in case["operands"])
        ctx = {"A": lambda d: Ms[0], "B": lambda d: Ms[1], "C": lambda d: Ms[2]}
        op = Operation(CompositeOperationType.Expression, expr=("kron", "A", "B", "C"), state_types=types, context=ctx)
        Oref = ref.kron(ref.kron(B.np(Ms[0]), B.np(Ms[1])), B.np(Ms[2]))
    elif g == "EXPR":
        dims = [int(o.dimensions) for o in ops_]
        D = dims[0] * dims[1]
        M = B.operator("O", D)
        types = tuple("Polarization" if n.startswith("p") else ("CustomState" if n.startswith("c") else "Fock")
                      for n in case["operands"])
        op = Operation(CompositeOperationType.Expression, expr="U", state_types=types, context={"U": lambda d: M})
        Oref = B.np(M)
    else:
        T = {"CX": CompositeOperationType.CXPolarization, "CZ": CompositeOperationType.CZPolarization,
             "SWAP": CompositeOperationType.SwapPolarization, "CSWAP": CompositeOperationType.CSwapPolarization}[g]
        op = Operation(T)
        Oref = _gate_matrix(B, g)
    pre = W.snapshot()
    try:
        W.ces[0].apply_operation(op, *ops_)
    except ValueError as e:
        if "entirely composed of zeros" in str(e):
            raise Cut("all-zero rejection (subject of C17)")
        raise
    post = W.snapshot()
    checks.compare_joint(B, W, pre, post, ops_, None, "C03", renorm=True, operator=lambda dims, pos: Oref)
    checks.check_wf(B, W, post, "C03/wf", unit=True)
