"""C12 - the built-in operator library equals its mathematical definitions.

Every constructor of photon_weave._math.ops and the type -> operator dispatch of Operation are executed
with symbolic parameters (angles, alpha, zeta, eta, phi) and compared entrywise with independent textbook
matrices; unitarity, additivity of rotations and the ladder algebra are obligations of their own.  For
displacement / squeezing / beam splitter the *argument handed to expm* is compared with the textbook
generator (the value of a matrix exponential is outside QF_NRA: sub-claim not decided)."""
from symx import ref
from harness import common as cm

ASSUMPTIONS = [
    "reals, not floats; e^{i pi/4} and 1/sqrt(2) are recognised as exact algebraic numbers",
    "displacement / squeezing / beam splitter: only the generator passed to expm is decided; the coherent-state and "
    "squeezed-vacuum amplitudes (value of expm on a truncated space) are NOT decided",
]
BOUNDS = {"quick": "cut-offs 1..6 (ladder-operator entries also at 33, 64, 65, 100), all real angles (symbolic), complex alpha/zeta (symbolic), real eta (symbolic)",
          "thorough": "cut-offs 1..9 (ladder-operator entries also at 16..200, 13 values)"}
OPTS = {"quick": {"max_paths": 8}, "thorough": {"max_paths": 8}}

CONST = ["I", "X", "Y", "Z", "H", "S", "T", "SX"]
ROT = ["RX", "RY", "RZ", "U3"]


def cases(tier):
    out = []
    for g in CONST + ROT:
        out.append({"id": f"gate/{g}/ops", "what": "gate", "gate": g, "via": "ops"})
        out.append({"id": f"gate/{g}/operation", "what": "gate", "gate": g, "via": "operation"})
    for g in ("RX", "RY", "RZ"):
        out.append({"id": f"additive/{g}", "what": "additive", "gate": g})
    out.append({"id": "u3/decomposition", "what": "u3dec"})
    for g in ("CX", "CZ", "SWAP", "CSWAP"):
        out.append({"id": f"multi/{g}/ops", "what": "multi", "gate": g, "via": "ops"})
        out.append({"id": f"multi/{g}/operation", "what": "multi", "gate": g, "via": "operation"})
    top = 6 if tier == "quick" else 9
    for d in range(1, top + 1):
        out.append({"id": f"ladder/{d}", "what": "ladder", "d": d})
        out.append({"id": f"phase/{d}", "what": "phase", "d": d})
    # larger cut-offs (entries only): around powers of two and beyond anything the test-suite reaches (its maximum is 37)
    for d in ((33, 64, 65, 100) if tier == "quick" else (16, 17, 32, 33, 63, 64, 65, 66, 100, 127, 128, 129, 200)):
        out.append({"id": f"ladder-entries/{d}", "what": "ladder-entries", "d": d})
    for d in range(2, (5 if tier == "quick" else 7) + 1):
        out.append({"id": f"displace/{d}", "what": "displace", "d": d})
        out.append({"id": f"squeeze/{d}", "what": "squeeze", "d": d})
    for d in range(1, (3 if tier == "quick" else 4) + 1):
        out.append({"id": f"beamsplitter/{d}", "what": "bs", "d": d})
    for t in ("Creation", "Annihilation", "PhaseShift", "Identity", "Displace", "Squeeze"):
        for nq in ((0, 2) if tier == "quick" else (0, 1, 2, 3)):
            if t in ("Displace", "Squeeze"):
                continue  # their dimension search evaluates floats of expm output
            out.append({"id": f"dispatch/{t}/nq{nq}", "what": "dispatch", "type": t, "nq": nq})
    return out


def _eq(B, got, want, label):
    got = B.np(got)
    if tuple(got.shape) != tuple(want.shape):
        B.require_structural(False, f"{label}: shape {got.shape} != {want.shape}")
        return
    if hasattr(B, "observed"):
        B.observed[label] = got
    B.require_zero([got - want], label, "operator")


def _unitary(B, U, label):
    U = B.np(U)
    n = U.shape[0]
    B.require_zero([ref.matmul(ref.dagger(U), U) - cm.identity(B, n)], f"{label}: U^+ U = 1", "unitarity")


def _params(B, g, suffix=""):
    if g in ("RX", "RY", "RZ"):
        return {"theta": B.angle("theta" + suffix, 2)}
    if g == "U3":
        return {"phi": B.angle("phi" + suffix, 1), "theta": B.angle("theta" + suffix, 2), "omega": B.angle("omega" + suffix, 1)}
    return {}


class _Recorder:
    """records the arguments of expm as seen by the library modules (both backends)"""

    def __init__(self):
        import photon_weave._math.ops as ops
        import photon_weave.operation.composite_operation as co

        self.mods = [ops, co]
        self.orig = [m.expm for m in self.mods]
        self.args = []
        rec = self

        def wrapped(m, *a, **k):
            rec.args.append(m)
            return rec.orig[0](m, *a, **k)

        for m in self.mods:
            m.expm = wrapped

    def close(self):
        for m, o in zip(self.mods, self.orig):
            m.expm = o


def scenario(B, case):
    import photon_weave._math.ops as ops
    from photon_weave.operation import (CompositeOperationType, FockOperationType, Operation,
                                        PolarizationOperationType)

    from symx.world import reset_library_state

    reset_library_state()
    what = case["what"]
    if what == "gate":
        g = case["gate"]
        p = _params(B, g)
        if case["via"] == "ops":
            fn = {"I": ops.identity_operator, "X": ops.x_operator, "Y": ops.y_operator, "Z": ops.z_operator,
                  "H": ops.hadamard_operator, "S": ops.s_operator, "T": ops.t_operator, "SX": ops.sx_operator,
                  "RX": ops.rx_operator, "RY": ops.ry_operator, "RZ": ops.rz_operator, "U3": ops.u3_operator}[g]
            args = [p[k] for k in ("phi", "theta", "omega") if k in p]
            M = fn(*args)
        else:
            op = Operation(getattr(PolarizationOperationType, g), **p)
            op.compute_dimensions(0, B.const_array([0]))
            M = op.operator
        _eq(B, M, cm.pol_gate(B, g, p), f"{g} equals its textbook matrix")
        _unitary(B, M, g)
    elif what == "additive":
        g = case["gate"]
        a, b = B.angle("a", 2), B.angle("b", 2)
        fn = {"RX": ops.rx_operator, "RY": ops.ry_operator, "RZ": ops.rz_operator}[g]
        prod = ref.matmul(B.np(fn(a)), B.np(fn(b)))
        _eq(B, fn(a + b), prod, f"{g}(a) {g}(b) = {g}(a+b)")
    elif what == "u3dec":
        # U3(phi, theta, omega) = RZ(phi) RY(theta) RZ(omega) up to the global phase e^{i(phi+omega)/2}
        phi, th, om = B.angle("phi", 2), B.angle("theta", 2), B.angle("omega", 2)
        U = B.np(ops.u3_operator(phi, th, om))
        c, s = B.cos_sin((phi + om) * 0.5)
        ph = c + cm.I1(B) * s
        W = ref.matmul(ref.matmul(cm.pol_gate(B, "RZ", {"theta": phi}), cm.pol_gate(B, "RY", {"theta": th})),
                       cm.pol_gate(B, "RZ", {"theta": om}))
        B.require_zero([U - W * ph], "U3 = e^{i(phi+omega)/2} RZ(phi) RY(theta) RZ(omega)", "operator")
    elif what == "multi":
        g = case["gate"]
        if case["via"] == "ops":
            M = {"CX": ops.controlled_not_operator, "CZ": ops.controlled_z_operator, "SWAP": ops.swap_operator,
                 "CSWAP": ops.controlled_swap_operator}[g]()
        else:
            T = {"CX": CompositeOperationType.CXPolarization, "CZ": CompositeOperationType.CZPolarization,
                 "SWAP": CompositeOperationType.SwapPolarization, "CSWAP": CompositeOperationType.CSwapPolarization}[g]
            op = Operation(T)
            op.compute_dimensions([0] * (3 if g == "CSWAP" else 2), [B.const_array([0])] * 3)
            M = op.operator
        n = 8 if g == "CSWAP" else 4
        want = ref.zeros((n, n), B.like())
        for i in range(n):
            bits = [(i >> k) & 1 for k in range(2 if n == 4 else 3)][::-1]  # first factor = most significant
            if g == "CX":
                j = i ^ 1 if bits[0] else i
                v = 1
            elif g == "CZ":
                j, v = i, (-1 if bits[0] and bits[1] else 1)
            elif g == "SWAP":
                j, v = (bits[1] << 1) | bits[0], 1
            else:
                j = ((bits[0] << 2) | (bits[2] << 1) | bits[1]) if bits[0] else i
                v = 1
            want[j, i] = ref.const(v, B.like())
        _eq(B, M, want, f"{g} equals its textbook matrix (first operand = most significant factor)")
        _unitary(B, M, g)
    elif what == "ladder":
        d = case["d"]
        a, ad, num = B.np(ops.annihilation_operator(d)), B.np(ops.creation_operator(d)), B.np(ops.number_operator(d))
        _eq(B, a, cm.annihilation(B, d), f"annihilation({d}): a|n> = sqrt(n)|n-1>")
        _eq(B, ad, ref.dagger(cm.annihilation(B, d)), f"creation({d}) = annihilation^+")
        want = ref.zeros((d, d), B.like())
        for n in range(d):
            want[n, n] = ref.const(n, B.like())
        _eq(B, num, want, f"number({d}) = diag(n)")
        comm = ref.matmul(a, ad) - ref.matmul(ad, a)
        B.require_zero([comm[:d - 1, :d - 1] - cm.identity(B, d)[:d - 1, :d - 1]], f"[a, a^+] = 1 below the cut-off {d}",
                       "commutator")
    elif what == "ladder-entries":
        d = case["d"]
        a, ad = B.np(ops.annihilation_operator(d)), B.np(ops.creation_operator(d))
        _eq(B, a, cm.annihilation(B, d), f"annihilation({d}): a|n> = sqrt(n)|n-1>")
        _eq(B, ad, ref.dagger(cm.annihilation(B, d)), f"creation({d}) = annihilation^+")
    elif what == "phase":
        d = case["d"]
        phi = B.angle("phi", 1)
        P = ops.phase_operator(d, phi)
        _eq(B, P, cm.phase_shift(B, d, phi), f"phase_operator({d}) = diag(e^(i n phi))")
        _unitary(B, P, f"phase({d})")
        op = Operation(FockOperationType.PhaseShift, phi=phi)
        op.dimensions = [d]
        _eq(B, op.operator, cm.phase_shift(B, d, phi), f"Operation(PhaseShift).operator at dimension {d}")
    elif what in ("displace", "squeeze", "bs"):
        d = case["d"]
        rec = _Recorder()
        try:
            if what == "displace":
                al = B.complex("alpha")
                ops.displacement_operator(d, al)
                a = cm.annihilation(B, d)
                want = ref.dagger(a) * al + a * (_conj(al) * (-1))
            elif what == "squeeze":
                z = B.complex("zeta")
                ops.squeezing_operator(d, z)
                a = cm.annihilation(B, d)
                ad = ref.dagger(a)
                want = (ref.matmul(a, a) * _conj(z) + ref.matmul(ad, ad) * (z * (-1))) * 0.5
            else:
                eta = B.real("eta")
                D = d + 1
                CompositeOperationType.NonPolarizingBeamSplitter.compute_operator([D, D], eta=eta)
                a = cm.annihilation(B, D)
                ad = ref.dagger(a)
                G = ref.kron(a, ad) + ref.kron(ad, a)
                want = G * (cm.I1(B) * eta)
                B.require_zero([G - ref.dagger(G)], "beam-splitter generator is Hermitian", "operator")
        finally:
            rec.close()
        B.require_structural(len(rec.args) == 1, f"{what}: expm called exactly once")
        if rec.args:
            _eq(B, rec.args[0], want, f"{what}({d}): generator handed to expm")
            if what in ("displace", "squeeze"):
                A = B.np(rec.args[0])
                B.require_zero([A + ref.dagger(A)], f"{what}({d}): generator is anti-Hermitian", "operator")
    elif what == "dispatch":
        t, nq = case["type"], case["nq"]
        kw = {"phi": B.angle("phi", 1)} if t == "PhaseShift" else {}
        op = Operation(getattr(FockOperationType, t), **kw)
        st = ref.ket(nq, nq + 1, B.like())
        op.compute_dimensions(nq, B.const_array(st) if B.mode == "real" else B.jnp.ndarray(st))
        want_dim = {"Creation": nq + 2, "Annihilation": nq + 2, "PhaseShift": nq + 1, "Identity": nq + 1}[t]
        B.require_structural(list(op.dimensions) == [want_dim], f"{t}: dimension {op.dimensions} for {nq} quanta, expected [{want_dim}]")
        d = int(op.dimensions[0])
        want = {"Creation": lambda: cm.creation(B, d), "Annihilation": lambda: cm.annihilation(B, d),
                "PhaseShift": lambda: cm.phase_shift(B, d, kw["phi"]), "Identity": lambda: cm.identity(B, d)}[t]()
        _eq(B, op.operator, want, f"Operation({t}).operator at dimension {d}")
    else:
        raise ValueError(what)


def _conj(x):
    return x.conjugate() if hasattr(x, "conjugate") else x
