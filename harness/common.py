"""World catalogue (DESIGN appendix B) and operation builders shared by the harnesses."""
from __future__ import annotations

import itertools

import numpy as np

from symx import ref


# ------------------------------------------------------------------------------------------------
# worlds
# ------------------------------------------------------------------------------------------------

def subs(n_env=1, n_custom=0, dF=2, dC=2):
    out = []
    for i in range(n_env):
        out.append({"name": f"f{i}", "type": "fock", "dim": dF if isinstance(dF, int) else dF[i], "env": f"e{i}"})
        out.append({"name": f"p{i}", "type": "pol", "env": f"e{i}"})
    for i in range(n_custom):
        out.append({"name": f"c{i}", "type": "custom", "dim": dC})
    return out


def world(subs_, blocks, composites=None, contraction=False):
    return {"subs": subs_, "blocks": blocks, "composites": composites or [], "contraction": contraction}


def layouts_for_target(kind, tier="quick", dF=2, dC=2):
    """worlds in which the target subsystem `t` (kind: fock / pol / custom) sits at every storage location x
    level; returns list of (layout id, world spec, target name, valid entry points)"""
    out = []
    t = {"fock": "f0", "pol": "p0", "custom": "c0"}[kind]
    thorough = tier == "thorough"
    if kind in ("fock", "pol"):
        # standalone member of an uncombined envelope
        for lvl in ("L", "V", "M"):
            blocks = [{"kind": "own", "sub": t, "level": lvl}] if lvl != "L" else []
            other = "p0" if kind == "fock" else "f0"
            blocks.append({"kind": "own", "sub": other, "level": "V"})
            out.append((f"S-{lvl}", world(subs(1, 0, dF), blocks), t, ["state", "envelope"]))
        # combined envelope
        for order in ("FP", "PF"):
            for lvl in ("V", "M"):
                w = world(subs(1, 0, dF), [{"kind": "env", "env": "e0", "order": order, "level": lvl}])
                out.append((f"E1-{order}-{lvl}", w, t, ["state", "envelope"]))
        # member of a composite, not combined (own state), bystander product space elsewhere
        for lvl in ("V", "M") if thorough else ("V",):
            w = world(subs(2, 0, dF), [{"kind": "own", "sub": t, "level": lvl},
                                      {"kind": "ps", "ce": 0, "members": ["p1", "f1"], "level": "V"}],
                      composites=[["e0", "e1"]])
            out.append((f"C0-own-{lvl}", w, t, ["state", "envelope", "composite"]))
        # combined envelope inside a composite
        w = world(subs(2, 0, dF), [{"kind": "env", "env": "e0", "order": "PF", "level": "V"}],
                  composites=[["e0", "e1"]])
        out.append(("C0-E1-PF-V", w, t, ["state", "envelope", "composite"]))
        # composite product space: every position of the target among 3 members, both levels
        oth = ["p1", "f1"] if kind == "pol" else ["p1", "p0"]
        orders = [[t] + oth, [oth[0], t, oth[1]], oth + [t]]
        for k, mem in enumerate(orders):
            for lvl in ("V", "M"):
                if lvl == "M" and not thorough and k != 1:
                    continue
                w = world(subs(2, 0, dF), [{"kind": "ps", "ce": 0, "members": mem, "level": lvl}],
                          composites=[["e0", "e1"]])
                out.append((f"C1-pos{k}-{lvl}", w, t, ["state", "envelope", "composite"]))
        # two product spaces: target in the second one
        mem2 = [oth[0], t]
        w = world(subs(2, 1, dF, dC), [{"kind": "ps", "ce": 0, "members": ["c0", "f1" if kind == "pol" else "p1"], "level": "V"},
                                       {"kind": "ps", "ce": 0, "members": mem2 if kind == "pol" else ["p0", t], "level": "V"}],
                  composites=[["e0", "e1", "c0"]])
        out.append(("C2-second-V", w, t, ["state", "composite"]))
    else:
        for lvl in ("L", "V", "M"):
            blocks = [{"kind": "own", "sub": t, "level": lvl}] if lvl != "L" else []
            out.append((f"S-{lvl}", world(subs(0, 1, dF, dC), blocks), t, ["state"]))
        for lvl in ("V", "M"):
            w = world(subs(1, 1, dF, dC), [{"kind": "own", "sub": t, "level": lvl},
                                           {"kind": "env", "env": "e0", "order": "FP", "level": "V"}],
                      composites=[["e0", "c0"]])
            out.append((f"C0-own-{lvl}", w, t, ["state", "composite"]))
        orders = [["c0", "p0", "f0"], ["p0", "c0", "f0"], ["f0", "p0", "c0"]]
        for k, mem in enumerate(orders):
            for lvl in ("V", "M"):
                if lvl == "M" and not thorough and k != 1:
                    continue
                w = world(subs(1, 1, dF, dC), [{"kind": "ps", "ce": 0, "members": mem, "level": lvl}],
                          composites=[["e0", "c0"]])
                out.append((f"C1-pos{k}-{lvl}", w, t, ["state", "composite"]))
    return out


def call_entry(W, entry, target_name, method, *args, **kw):
    """invoke `method` for the target through the chosen entry point"""
    t = W.sub(target_name)
    if entry == "state":
        return getattr(t, method)(*args, **kw)
    if entry == "envelope":
        return getattr(t.envelope, method)(*args, t, **kw)
    if entry == "composite":
        ce = W.ces[0]
        return getattr(ce, method)(*args, t, **kw)
    raise ValueError(entry)


# ------------------------------------------------------------------------------------------------
# textbook operators (independent of photon_weave._math.ops), generic over the backend
# ------------------------------------------------------------------------------------------------

def mat(B, rows):
    """rows of python numbers / backend scalars -> numpy array usable by symx.ref"""
    like = B.like()
    out = ref.zeros((len(rows), len(rows[0])), like)
    for i, r in enumerate(rows):
        for j, x in enumerate(r):
            out[i, j] = x if not isinstance(x, (int, float, complex)) else ref.const(x, like)
    return out


def I1(B):
    like = B.like()
    return ref.const(1j, like)


def pol_gate(B, name, params=None):
    """textbook 2x2 matrices; params: dict of backend scalars (angles)"""
    p = params or {}
    i = I1(B)
    s2 = B.sqrt_int(2)
    if name == "I":
        return mat(B, [[1, 0], [0, 1]])
    if name == "X":
        return mat(B, [[0, 1], [1, 0]])
    if name == "Y":
        return mat(B, [[0, -1j], [1j, 0]])
    if name == "Z":
        return mat(B, [[1, 0], [0, -1]])
    if name == "H":
        h = s2 * 0.5
        return mat(B, [[h, h], [h, h * (-1)]])
    if name == "S":
        return mat(B, [[1, 0], [0, 1j]])
    if name == "T":
        h = s2 * 0.5
        return mat(B, [[1, 0], [0, h + i * h]])
    if name == "SX":
        return mat(B, [[0.5 + 0.5j, 0.5 - 0.5j], [0.5 - 0.5j, 0.5 + 0.5j]])
    if name == "RX":
        c, s = B.cos_sin(p["theta"] * 0.5)
        return mat(B, [[c, i * s * (-1)], [i * s * (-1), c]])
    if name == "RY":
        c, s = B.cos_sin(p["theta"] * 0.5)
        return mat(B, [[c, s * (-1)], [s, c]])
    if name == "RZ":
        c, s = B.cos_sin(p["theta"] * 0.5)
        return mat(B, [[c + i * s * (-1), 0], [0, c + i * s]])
    if name == "U3":
        c, s = B.cos_sin(p["theta"] * 0.5)
        cp, sp = B.cos_sin(p["phi"])
        co, so = B.cos_sin(p["omega"])
        ep = cp + i * sp
        eo = co + i * so
        return mat(B, [[c, eo * s * (-1)], [ep * s, ep * eo * c]])
    raise ValueError(name)


def half(x):
    from fractions import Fraction

    from symx.core import SC

    x = SC.lift(x)
    return SC(x.re.scale(Fraction(1, 2)), x.im.scale(Fraction(1, 2)))


def annihilation(B, d):
    like = B.like()
    out = ref.zeros((d, d), like)
    for n in range(1, d):
        out[n - 1, n] = B.sqrt_int(n)
    return out


def creation(B, d):
    return ref.dagger(annihilation(B, d))


def phase_shift(B, d, phi):
    like = B.like()
    out = ref.zeros((d, d), like)
    i = I1(B)
    for n in range(d):
        c, s = B.cos_sin(phi * n)
        out[n, n] = c + i * s
    return out


def identity(B, d):
    like = B.like()
    out = ref.zeros((d, d), like)
    for n in range(d):
        out[n, n] = ref.const(1, like)
    return out


def embed_pad(Bk, O, d_small, d_big):
    """operator on d_small levels padded with zeros to d_big"""
    out = ref.zeros((d_big, d_big), O)
    out[:d_small, :d_small] = O
    return out


# ------------------------------------------------------------------------------------------------
# engine E2: CrossHair conditions (symbolic ints / strings), one structural case per condition
# ------------------------------------------------------------------------------------------------

def crosshair_condition(B, relfile, function, expect="confirmed", timeout_s=90):
    """runs `crosshair check file:LINE` for one condition (function with a PEP316 docstring in /verif/ch/<relfile>).
    expect="confirmed": the verdict must be "Confirmed over all paths" (a counterexample is a violation, anything else is
    inconclusive); expect="refuted": reachability twin - CrossHair must produce a counterexample to `post: False`."""
    import os
    import re
    import subprocess
    import sys

    from symx.explore import Unsupported

    here = os.path.dirname(os.path.dirname(os.path.abspath(__file__)))
    f = os.path.join(here, "ch", relfile)
    src = open(f).read().splitlines()
    line = None
    for i, ln in enumerate(src):
        if re.match(rf"def {re.escape(function)}\(", ln):
            for j in range(i, min(i + 40, len(src))):
                if "post:" in src[j]:
                    line = j + 1
                    break
            break
    if line is None:
        raise Unsupported(f"condition {function} not found in {relfile}")
    env = dict(os.environ)
    env["PYTHONPATH"] = here
    try:
        p = subprocess.run([sys.executable, "-m", "crosshair", "check", "--report_all", "--per_condition_timeout", str(timeout_s),
                            f"{f}:{line}"], capture_output=True, text=True, timeout=timeout_s * 3 + 60, env=env)
        out = p.stdout + p.stderr
    except Exception as e:  # noqa
        raise Unsupported(f"crosshair could not be run: {e}")
    if "No module named crosshair" in out:
        raise Unsupported("crosshair-tool is not installed in the overlay venv")
    mine = [ln for ln in out.splitlines() if f":{line}:" in ln]
    verdict = mine[0] if mine else (out.strip().splitlines() or ["(no output)"])[-1]
    if expect == "refuted":
        B.require_structural(bool(mine) and "error" in mine[0],
                             f"crosshair: reachability twin {function} was not refuted (vacuous precondition?): {verdict[-160:]}")
        return
    if mine and "error" in mine[0]:
        B.require_structural(False, f"crosshair counterexample for {function}: {verdict[-220:]}")
    elif mine and "Confirmed over all paths" in mine[0]:
        B.require_structural(True, f"crosshair: {function} confirmed over all paths")
    else:
        raise Unsupported(f"crosshair verdict for {function} is not 'Confirmed over all paths': {verdict[-200:]}")
