"""C17 - invalid requests are rejected and leave the system unchanged.

One structural case = fault kind x storage layout x level x entry point.  Contents are symbolic; where validity depends
on values the solver characterises the rejected inputs (Kraus sets under "the completeness test fails", Fock states
under "the ladder operator maps the state to zero").
Fault kinds: kraus-incomplete, kraus-wrongsize, povm-wrongsize, customop-wrongsize, wrong-kind (Fock operation on a
polarization and vice versa), outside-container, annihilate-vacuum, destroyed (operation / channel / POVM / measure /
combine on a destructively measured subsystem).
Obligations on every path on which the request is rejected: an exception is raised; the joint state of every storage
component equals the pre-state (solver-decided polynomial identity; padding by automatic resizes is not a change); the
object graph is well formed; one valid continuation on the target (or on a survivor) succeeds and leaves a well-formed
graph.  A path on which an invalid request is NOT rejected is a violation, except for the value-dependent kinds where
the accepted side is the valid side (cut, verified in C06 / C01)."""
from symx import checks, ref
from harness import common as cm

ASSUMPTIONS = [
    "reals, not floats; contraction off; isclose/allclose read as exact equality (so 'not trace preserving' means "
    "sum K^+K != 1 exactly)",
    "fault kinds, layouts, entry points are the enumerated bound; contents and operator entries symbolic",
    "shrinking below the occupied levels (documented failure value False) is decided in C10",
]
BOUNDS = {"quick": "8 fault kinds x the C01 layout catalogue (<=2 envelopes, Fock cut-off 2, custom dim 2) x entry points",
          "thorough": "plus Matrix level at every position"}
OPTS = {"quick": {"max_paths": 48, "timeout_ms": 10000, "case_timeout_s": 900, "exact_close": True},
        "thorough": {"max_paths": 96, "timeout_ms": 30000, "case_timeout_s": 1800, "exact_close": True}}

# further fault kinds with their own case lists: outside (composite), foreign (envelope), destroyed
FAULTS = ["kraus-incomplete", "kraus-wrongsize", "povm-wrongsize", "customop-wrongsize", "wrong-kind", "wrong-kind-sized", "annihilate-vacuum"]


def cases(tier):
    out = []
    for kind in ("pol", "fock", "custom"):
        for lid, w, t, entries in cm.layouts_for_target(kind, tier, dF=2, dC=2):
            for entry in entries:
                for fault in FAULTS:
                    if fault == "annihilate-vacuum" and kind != "fock":
                        continue
                    if fault == "customop-wrongsize" and kind == "fock":
                        continue  # a larger custom Fock operator is documented to resize the space
                    if fault in ("wrong-kind", "wrong-kind-sized") and kind == "custom":
                        continue
                    if fault in ("kraus-incomplete",) and tier == "quick" and lid.endswith("-M") and not lid.startswith("E1"):
                        continue
                    out.append({"id": f"{fault}/{kind}/{lid}/{entry}", "fault": fault, "kind": kind, "world": w, "target": t,
                                "entry": entry})
    # outside the container / destroyed subsystems
    S = cm.subs(3, 1, 2, 2)
    w = cm.world(S, [{"kind": "ps", "ce": 0, "members": ["p0", "c0"], "level": "V"},
                     {"kind": "ps", "ce": 0, "members": ["f1", "p1"], "level": "V"},
                     {"kind": "env", "env": "e2", "order": "PF", "level": "V"}], [["e0", "e1", "c0"], ["e2"]])
    for act in ("cx", "kraus", "povm", "combine", "trace_out", "resize"):
        out.append({"id": f"outside-container/{act}", "fault": "outside", "act": act, "world": w})
    # a subsystem of ANOTHER envelope handed to an envelope-level call
    for lid, blocks in (("E0", [{"kind": "own", "sub": "f0", "level": "V"}, {"kind": "own", "sub": "p0", "level": "V"},
                                {"kind": "own", "sub": "p1", "level": "V"}, {"kind": "own", "sub": "f1", "level": "V"}]),
                        ("E1", [{"kind": "env", "env": "e0", "order": "FP", "level": "V"},
                                {"kind": "own", "sub": "p1", "level": "V"}, {"kind": "own", "sub": "f1", "level": "V"}])):
        wf = cm.world(cm.subs(2, 0, 2), blocks)
        for act in ("kraus", "povm", "op", "measure", "reorder", "trace_out"):
            for foreign in ("p1", "f1"):
                out.append({"id": f"foreign-member/{lid}/{act}/{foreign}", "fault": "foreign", "act": act, "world": wf, "foreign": foreign})
    for lid, wd, t in (("ps", w, "p0"), ("ps-partner", w, "p1"),
                       ("env", cm.world(cm.subs(1, 0, 2), [{"kind": "env", "env": "e0", "order": "FP", "level": "V"}]), "p0"),
                       ("own", cm.world(cm.subs(1, 0, 2), [{"kind": "own", "sub": "p0", "level": "V"},
                                                          {"kind": "own", "sub": "f0", "level": "V"}]), "p0")):
        for act in ("op", "kraus", "povm", "measure", "combine"):
            if act == "combine" and lid in ("env", "own"):
                continue
            out.append({"id": f"destroyed/{lid}/{act}", "fault": "destroyed", "act": act, "world": wd, "target": t})
    return out


_LAST = {}


def _np2j(B, M):
    return B.const_array(M) if B.mode == "real" else B.jnp.ndarray(M)


def _request(B, W, case):
    """performs the (possibly) invalid request; returns nothing; raises what the library raises"""
    import numpy as np

    from photon_weave.operation import (CompositeOperationType, CustomStateOperationType, FockOperationType, Operation,
                                        PolarizationOperationType)

    h = W.h
    fault = case["fault"]
    t = W.sub(case["target"])
    d = int(t.dimensions)
    entry = case["entry"]

    def call(method, *args, **kw):
        return cm.call_entry(W, entry, case["target"], method, *args, **kw)

    if fault == "kraus-incomplete":
        Ks = [B.operator("K0", d), B.operator("K1", d)]
        _LAST["Ks"] = Ks
        if entry == "state":
            t.apply_kraus(Ks)
        elif entry == "envelope":
            t.envelope.apply_kraus(Ks, t)
        else:
            W.ces[0].apply_kraus(Ks, t)
    elif fault == "kraus-wrongsize":
        Ks = [_np2j(B, cm.identity(B, d + 1))]
        if entry == "state":
            t.apply_kraus(Ks)
        elif entry == "envelope":
            t.envelope.apply_kraus(Ks, t)
        else:
            W.ces[0].apply_kraus(Ks, t)
    elif fault == "povm-wrongsize":
        M0 = ref.zeros((d + 1, d + 1), B.like())
        M1 = cm.identity(B, d + 1)
        M0[0, 0] = ref.const(1, B.like())
        M1[0, 0] = ref.const(0, B.like())
        ops = [_np2j(B, M0), _np2j(B, M1)]
        if entry == "state":
            t.measure_POVM(ops, destructive=False, partial=True)
        elif entry == "envelope":
            t.envelope.measure_POVM(ops, t, destructive=False)
        else:
            W.ces[0].measure_POVM(ops, t, destructive=False)
    elif fault == "customop-wrongsize":
        T = PolarizationOperationType if isinstance(t, h.Polarization) else CustomStateOperationType
        call("apply_operation", Operation(T.Custom, operator=B.operator("O", d + 1)))
    elif fault == "wrong-kind":
        op = Operation(FockOperationType.Creation) if isinstance(t, h.Polarization) else Operation(PolarizationOperationType.X)
        call("apply_operation", op)
    elif fault == "wrong-kind-sized":
        # an operation of the wrong kind whose operator happens to have the right SIZE and already knows its dimensions:
        # a 2x2 Fock Custom operator aimed at a polarization; a polarization gate (used validly before, on a scratch
        # polarization outside the world) aimed at a Fock space of dimension 2
        if isinstance(t, h.Polarization):
            op = Operation(FockOperationType.Custom, operator=B.operator("O", 2))
        else:
            op = Operation(PolarizationOperationType.X)
            scratch = h.Polarization()
            scratch.apply_operation(op)
        call("apply_operation", op)
    elif fault == "annihilate-vacuum":
        call("apply_operation", Operation(FockOperationType.Annihilation))
    else:
        raise ValueError(fault)


def _continuation(B, W, t):
    from photon_weave.operation import (CustomStateOperationType, FockOperationType, Operation, PolarizationOperationType)

    h = W.h
    if isinstance(t, h.Polarization):
        t.apply_operation(Operation(PolarizationOperationType.H))
    elif isinstance(t, h.Fock):
        t.apply_operation(Operation(FockOperationType.PhaseShift, phi=0.5))
    else:
        d = int(t.dimensions)
        M = ref.zeros((d, d), B.like())
        for i in range(d):
            M[(i + 1) % d, i] = ref.const(1, B.like())
        t.apply_operation(Operation(CustomStateOperationType.Custom, operator=_np2j(B, M)))


def scenario(B, case):
    from symx.explore import Cut
    from symx.world import World

    W = World(B, case["world"])
    h = W.h
    fault = case["fault"]
    if fault == "outside":
        return _outside(B, W, case)
    if fault == "destroyed":
        return _destroyed(B, W, case)
    if fault == "foreign":
        return _foreign(B, W, case)
    t = W.sub(case["target"])
    pre = W.snapshot()
    raised = None
    restore = None
    if fault == "kraus-incomplete":
        # the accepted side (cut below) would run Envelope.contract's purity test on symbolic operators x symbolic
        # state, which cannot be built in budget; as in C06 (family sym2) that step is replaced by a no-op
        restore = h.Envelope.contract
        h.Envelope.contract = lambda self, *a, **k: None
    try:
        _request(B, W, case)
    except Exception as e:  # the rejection
        raised = e
    finally:
        if restore is not None:
            h.Envelope.contract = restore
    if raised is None:
        if fault == "kraus-incomplete":
            # accepted side: the path condition (the library's own completeness test) must imply that the set really is
            # trace preserving, sum K^+ K = I, with the CONJUGATE transpose - otherwise an invalid channel was let through
            Ks = [B.np(K) for K in _LAST["Ks"]]
            tot = None
            for K in Ks:
                term = ref.dagger(K) @ K
                tot = term if tot is None else tot + term
            B.require_zero([tot - cm.identity(B, int(t.dimensions))],
                           "C17: a Kraus set accepted by the library satisfies sum K^+ K = I", "kraus-completeness")
        if fault in ("kraus-incomplete", "annihilate-vacuum"):
            raise Cut("request was valid on this path (accepted side; verified in C06 / C01)")
        B.require_structural(False, f"C17: invalid request ({fault}) was not rejected")
        return
    post = W.snapshot()
    checks.compare_unchanged(B, W, pre, post, f"C17/{fault} rejected with {type(raised).__name__}")
    checks.check_wf(B, W, post, f"C17/{fault} wf", unit=True)
    _continuation(B, W, t)
    checks.check_wf(B, W, W.snapshot(), f"C17/{fault} continuation wf", unit=True, numeric=False)


def _outside(B, W, case):
    import numpy as np

    from photon_weave.operation import CompositeOperationType, Operation

    ce = W.ces[0]
    p0, p2, f2 = W.sub("p0"), W.sub("p2"), W.sub("f2")
    pre = W.snapshot()
    act = case["act"]
    raised = None
    try:
        if act == "cx":
            ce.apply_operation(Operation(CompositeOperationType.CXPolarization), p0, p2)
        elif act == "kraus":
            ce.apply_kraus([B.jnp.array(np.eye(4))], p0, p2)
        elif act == "povm":
            ce.measure_POVM([B.jnp.array(np.diag([1.0, 0, 0, 0])), B.jnp.array(np.diag([0, 1.0, 1, 1]))], p0, p2, destructive=False)
        elif act == "combine":
            ce.combine(p0, p2)
        elif act == "trace_out":
            ce.trace_out(p0, p2)
        elif act == "resize":
            ce.resize_fock(3, f2)
    except Exception as e:
        raised = e
    B.require_structural(raised is not None, f"C17: {act} with a subsystem of another composite envelope was not rejected")
    post = W.snapshot()
    checks.compare_unchanged(B, W, pre, post, f"C17/outside-container {act}")
    checks.check_wf(B, W, post, "C17/outside wf", unit=True)
    _continuation(B, W, p0)
    _continuation(B, W, p2)
    checks.check_wf(B, W, W.snapshot(), "C17/outside continuation wf", unit=True, numeric=False)


def _destroyed(B, W, case):
    import numpy as np

    from photon_weave.operation import Operation, PolarizationOperationType

    t = W.sub(case["target"])
    t.measure(separate_measurement=True, destructive=True)
    B.require_structural(bool(t.measured), "C17/destroyed: set-up measurement did not destroy the target")
    pre = W.snapshot()
    act = case["act"]
    raised = None
    try:
        if act == "op":
            t.apply_operation(Operation(PolarizationOperationType.X))
        elif act == "kraus":
            t.apply_kraus([B.jnp.array(np.eye(2))])
        elif act == "povm":
            t.measure_POVM([B.jnp.array(np.diag([1.0, 0])), B.jnp.array(np.diag([0, 1.0]))])
        elif act == "measure":
            t.measure()
        elif act == "combine":
            W.ces[0].combine(t, W.sub("c0"))
    except Exception as e:
        raised = e
    B.require_structural(raised is not None, f"C17: {act} on a destroyed subsystem did not raise")
    post = W.snapshot()
    B.require_structural(bool(t.measured) and t.state is None, "C17/destroyed: the destroyed subsystem came back to life")
    checks.compare_unchanged(B, W, pre, post, f"C17/destroyed {act}")
    checks.check_wf(B, W, post, "C17/destroyed wf", unit=True)
    for s in post.live()[:2]:
        _continuation(B, W, s)
    checks.check_wf(B, W, W.snapshot(), "C17/destroyed continuation wf", unit=True, numeric=False)


def _foreign(B, W, case, tag="C17"):
    """an envelope-level request that names a subsystem of another envelope must be rejected"""
    import numpy as np

    from photon_weave.operation import FockOperationType, Operation, PolarizationOperationType

    h = W.h
    e0 = W.envs["e0"]
    x = W.sub(case["foreign"])
    act = case["act"]
    pre = W.snapshot()
    raised = None
    try:
        if act == "kraus":
            e0.apply_kraus([B.jnp.array(np.diag([1.0, 0.6])), B.jnp.array(np.array([[0, 0.8], [0, 0]]))], x)
        elif act == "povm":
            e0.measure_POVM([B.jnp.array(np.diag([1.0, 0.6])), B.jnp.array(np.diag([0.0, 0.8]))], x, destructive=False)
        elif act == "op":
            op = Operation(PolarizationOperationType.X) if isinstance(x, h.Polarization) else Operation(FockOperationType.Identity)
            e0.apply_operation(op, x)
        elif act == "measure":
            e0.measure(x, separate_measurement=True, destructive=False)
        elif act == "reorder":
            e0.reorder(x)
        elif act == "trace_out":
            e0.trace_out(x)
    except Exception as e:
        raised = e
    B.require_structural(raised is not None, f"{tag}: Envelope.{act} with a subsystem of another envelope was not rejected")
    post = W.snapshot()
    checks.compare_unchanged(B, W, pre, post, f"{tag}/foreign-member {act}")
    checks.check_wf(B, W, post, f"{tag}/foreign wf", unit=True)
