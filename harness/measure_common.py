"""Shared scenario for C04 (Born rule) and C05 (collapse / retirement): one projective measurement call.

One structural case = measured subsystem x storage layout x level x entry point x (separate_measurement, destructive).
The sampler stub forks over every outcome; each path is one outcome tuple.

C04 obligations per path (outcome tuple O, draws i with probability vectors p_i and chosen index k_i):
    every p_i[j] is real and >= 0, sum_j p_i[j] > 0                       (sampler precondition)
    prod_i p_i[k_i] * <O|rho_M|O>-denominator == <O|rho_M|O> * prod_i sum_j p_i[j]   (chain rule == joint Born probability;
    rho_M = reduced pre-state of the measured subsystems; holding on every path this is equivalent to every draw using
    the conditional distribution)
C05 obligations per path:
    outcome-dictionary keys == specified set (by object identity), values == forced outcomes
    joint post-state of the survivors of every affected component == projected pre-state / probability
    destroyed subsystems are flagged / empty / removed, non-destructively measured ones stay live in |k><k|, custom states
    are never destroyed; one continuation step: a destroyed subsystem rejects any further request, a survivor accepts an
    operation and transforms correctly; WF(post)."""
from symx import checks, ref
from harness import common as cm

FLAGS = [(False, True), (True, True), (False, False), (True, False)]


def cases(tier):
    out = []
    thorough = tier == "thorough"
    for kind in ("pol", "fock", "custom"):
        for lid, w, t, entries in cm.layouts_for_target(kind, tier, dF=2, dC=2):
            for entry in entries:
                for sep, dest in FLAGS:
                    if kind == "custom" and (sep or not dest):
                        continue  # flags have no meaning for custom states
                    if not thorough and lid.endswith("-M") and (sep, dest) == (True, False) and not lid.startswith("E1"):
                        continue
                    out.append({"id": f"{kind}/{lid}/{entry}/sep{int(sep)}-dest{int(dest)}", "kind": kind, "world": w,
                                "targets": [t], "entry": entry, "sep": sep, "dest": dest})
    # whole-envelope / several-subsystem requests
    for order in ("FP", "PF"):
        for lvl in ("V", "M"):
            w = cm.world(cm.subs(1, 0, 2), [{"kind": "env", "env": "e0", "order": order, "level": lvl}])
            for dest in (True, False):
                out.append({"id": f"envelope-all/E1-{order}-{lvl}/dest{int(dest)}", "kind": "env", "world": w, "targets": [],
                            "entry": "envelope0", "sep": False, "dest": dest})
                out.append({"id": f"envelope-both/E1-{order}-{lvl}/dest{int(dest)}", "kind": "env", "world": w,
                            "targets": ["p0", "f0"], "entry": "envelope0", "sep": False, "dest": dest})
    for lF, lP in (("V", "V"), ("L", "M"), ("M", "L")):
        w = cm.world(cm.subs(1, 0, 2), [{"kind": "own", "sub": "f0", "level": lF, "label": 1},
                                        {"kind": "own", "sub": "p0", "level": lP, "label": "R"}])
        out.append({"id": f"envelope-all/E0-{lF}{lP}/dest1", "kind": "env", "world": w, "targets": [], "entry": "envelope0",
                    "sep": False, "dest": True})
    # concrete, genuinely mixed and entangled density matrices: these go through the unconditional contract() of
    # Envelope.measure / ProductState (numeric eigh), which is cut for symbolic contents
    for order in ("FP", "PF"):
        w = cm.world(cm.subs(1, 0, 2), [{"kind": "env", "env": "e0", "order": order, "level": "M", "concrete": "mixed"}])
        for t in ("f0", "p0"):
            for dest in (True, False):
                out.append({"id": f"concrete/E1-{order}-M/{t}/sep1-dest{int(dest)}", "kind": "env", "world": w, "targets": [t],
                            "entry": "envelope", "sep": True, "dest": dest})
    wps = cm.world(cm.subs(2, 1, 2, 2), [{"kind": "ps", "ce": 0, "members": ["c0", "p1", "p0"], "level": "M", "concrete": "mixed"}],
                   [["e0", "e1", "c0"]])
    for tg in (["p1"], ["c0", "p0"]):
        out.append({"id": f"concrete/ps[c0,p1,p0]-M/{','.join(tg)}/sep1-dest0", "kind": "multi", "world": wps, "targets": tg,
                    "entry": "composite", "sep": True, "dest": False})
    S = cm.subs(2, 1, 2, 2)
    comp = [["e0", "e1", "c0"]]
    multi = [("ps[p1,c0,p0]-V", cm.world(S, [{"kind": "ps", "ce": 0, "members": ["p1", "c0", "p0"], "level": "V"}], comp)),
             ("ps[c0,p1,p0]-M", cm.world(S, [{"kind": "ps", "ce": 0, "members": ["c0", "p1", "p0"], "level": "M"}], comp)),
             ("ps[p0,c0]+ps[f1,p1]-V", cm.world(S, [{"kind": "ps", "ce": 0, "members": ["p0", "c0"], "level": "V"},
                                                    {"kind": "ps", "ce": 0, "members": ["f1", "p1"], "level": "V"}], comp))]
    for lid, w in multi:
        for tg in (["p0", "p1"], ["p1", "c0"], ["c0", "p0", "p1"]):
            for sep, dest in ((True, True), (True, False), (False, True)):
                if not thorough and lid.endswith("-M") and not dest:
                    continue
                out.append({"id": f"multi/{lid}/{','.join(tg)}/sep{int(sep)}-dest{int(dest)}", "kind": "multi", "world": w,
                            "targets": tg, "entry": "composite", "sep": sep, "dest": dest})
    return out


def partner(W, o):
    h = W.h
    if isinstance(o, h.CustomState):
        return None
    e = o.envelope
    return e.polarization if o is e.fock else e.fock


def specified_set(W, case, ts):
    """subsystems the call is specified to measure"""
    if case["entry"] == "envelope0" and not ts:
        e = W.envs["e0"]
        return [e.fock, e.polarization]
    out = list(ts)
    if not case["sep"]:
        for t in ts:
            p = partner(W, t)
            if p is not None and not any(p is x for x in out) and not p.measured:
                out.append(p)
    return out


def do_measure(W, case, ts):
    kw = {"separate_measurement": case["sep"], "destructive": case["dest"]}
    entry = case["entry"]
    if entry == "state":
        return ts[0].measure(**kw)
    if entry == "envelope":
        return ts[0].envelope.measure(*ts, **kw)
    if entry == "envelope0":
        return W.envs["e0"].measure(*ts, **kw)
    if entry == "composite":
        return W.ces[0].measure(*ts, **kw)
    raise ValueError(entry)


def scenario(B, case, which):
    from symx.world import World

    W = World(B, case["world"])
    h = W.h
    ts = [W.sub(n) for n in case["targets"]]
    spec = specified_set(W, case, ts)
    pre = W.snapshot()
    outcomes = do_measure(W, case, ts)
    draws = B.get_draws()
    post = W.snapshot()
    names = lambda objs: [W.name_of(o) for o in objs]

    # ---- which subsystems were reported ---------------------------------------------------------------------------
    got_keys = list(outcomes.keys())
    same_set = len(got_keys) == len(spec) and all(any(k is s for s in spec) for k in got_keys)
    if (not same_set and case["entry"] == "state" and len(ts) == 1 and isinstance(ts[0], h.Polarization)
            and pre.block_of(ts[0]).kind == "own" and len(got_keys) == 1 and got_keys[0] is ts[0]):
        # Polarization.measure documents "Measures this state": for a polarization that holds its own state the
        # partner is not part of the specified set of that call (no demand beyond the documented behaviour)
        same_set = True
    if which == "C05":
        B.require_structural(same_set, f"C05: outcome dictionary holds {names(got_keys)}, specified {names(spec)}")
    measured = [k for k in got_keys if any(k is s for s in W.all_subs())]
    vals = {id(k): int(v) for k, v in outcomes.items()}
    if not measured:
        B.require_structural(False, f"{which}: the call reported no outcome at all (specified: {names(spec)})")
        return

    # ---- reference: joint pre-state of the affected component(s) ---------------------------------------------------
    comps = checks.components(pre, pre, force_together=measured)
    comp = [c for c in comps if any(c[0] is m or any(x is m for x in c) for m in measured)]
    comp = comp[0] if comp else []
    rho, dims = pre.joint(comp)
    pos = {id(m): [id(x) for x in comp].index(id(m)) for m in measured}

    if which == "C04":
        # sampler precondition + chain rule
        prod_p = None
        prod_s = None
        for i, d in enumerate(draws):
            tot = None
            for j, pj in enumerate(d["p"]):
                B.require(B.nonneg(pj), f"C04: probability {j} of draw {i} handed to the sampler is real and >= 0", "sampler-precondition")
                tot = pj if tot is None else tot + pj
            B.require(B.positive(tot), f"C04: probabilities of draw {i} have a positive sum", "sampler-precondition")
            pk = d["p"][d["k"]]
            prod_p = pk if prod_p is None else prod_p * pk
            prod_s = tot if prod_s is None else prod_s * tot
        one = ref.const(1, B.like())
        prod_p = one if prod_p is None else prod_p
        prod_s = one if prod_s is None else prod_s
        # joint Born probability of the reported outcome tuple
        E = rho
        for m in measured:
            E = ref.project_keep(E, dims, pos[id(m)], vals[id(m)])
        p_ref = ref.trace(E)
        tr0 = ref.trace(rho)
        if hasattr(B, "observed"):
            import numpy as np

            arr = np.empty((2,), dtype=object)
            arr[0], arr[1] = prod_p, prod_s
            B.observed["chain"] = arr
        B.require_zero([prod_p * tr0 - p_ref * prod_s],
                       f"C04: product of the drawn probabilities equals the Born probability of outcomes "
                       f"{[(W.name_of(m), vals[id(m)]) for m in measured]}", "born-rule")
        return

    # ---- C05: collapse ---------------------------------------------------------------------------------------------
    destroyed = []
    E, edims, ecomp = rho, list(dims), list(comp)
    for m in measured:
        k = vals[id(m)]
        p_ = [id(x) for x in ecomp].index(id(m))
        gone = case["dest"] and not isinstance(m, h.CustomState)
        if gone:
            E, edims = ref.project(E, edims, p_, k)
            ecomp = [x for x in ecomp if x is not m]
            destroyed.append(m)
        else:
            E = ref.project_keep(E, edims, p_, k)
    for m in destroyed:
        B.require_structural(bool(m.measured) and m.state is None and m.index is None,
                             f"C05: destructively measured {W.name_of(m)} is flagged measured and holds nothing "
                             f"(measured={m.measured}, index={m.index!r})")
    for m in measured:
        if not any(m is d for d in destroyed):
            B.require_structural(not m.measured and any(m is x for x in post.live()),
                                 f"C05: {W.name_of(m)} was measured non-destructively (or is a custom state) but is gone")
    live_post = {id(x) for x in post.live()}
    for x in ecomp:
        B.require_structural(id(x) in live_post, f"C05: {W.name_of(x)} should survive the measurement but is not live")
    survivors = [x for x in ecomp if id(x) in live_post]
    if survivors and len(survivors) == len(ecomp):
        rho1, d1 = post.joint(survivors)
        if list(d1) != list(edims):
            big = [max(a, b) for a, b in zip(d1, edims)]
            rho1, E = checks._pad(rho1, d1, big), checks._pad(E, edims, big)
        if hasattr(B, "observed"):
            B.observed["post:" + ",".join(names(survivors))] = rho1
        B.require_equal_normalised(rho1, E, f"C05: post-measurement state of {names(survivors)}", "collapse")
    # untouched components
    for c in comps:
        if c is comp:
            continue
        if all(id(x) in live_post for x in c):
            r0, d0 = pre.joint(c)
            r1, d1 = post.joint(c)
            B.require_zero([r1 - r0] if list(d0) == list(d1) else [checks._pad(r1, d1, [max(a, b) for a, b in zip(d0, d1)]) -
                                                                  checks._pad(r0, d0, [max(a, b) for a, b in zip(d0, d1)])],
                           f"C05: bystander component {names(c)} changed", "bystander")
        else:
            B.require_structural(False, f"C05: bystander component {names(c)} lost subsystems")
    checks.check_wf(B, W, post, "C05/wf", unit=True)

    # ---- continuation ---------------------------------------------------------------------------------------------
    from photon_weave.operation import (CustomStateOperationType, FockOperationType, Operation, PolarizationOperationType)

    for m in destroyed:
        raised = False
        try:
            if isinstance(m, h.Polarization):
                m.apply_operation(Operation(PolarizationOperationType.X))
            else:
                m.apply_operation(Operation(FockOperationType.Identity))
        except Exception:
            raised = True
        B.require_structural(raised, f"C05: an operation on the destroyed {W.name_of(m)} did not raise")
        raised = False
        try:
            m.measure()
        except Exception:
            raised = True
        B.require_structural(raised, f"C05: measuring the destroyed {W.name_of(m)} again did not raise")
    if survivors and len(survivors) == len(ecomp):
        s = survivors[0]
        mid = W.snapshot()
        if isinstance(s, h.Polarization):
            op, O = Operation(PolarizationOperationType.Y), cm.pol_gate(B, "Y")
        elif isinstance(s, h.Fock):
            phi = 1  # concrete phase: the continuation only has to work
            op = Operation(FockOperationType.PhaseShift, phi=0.0)
            O = None
        else:
            d = int(s.dimensions)
            M = ref.zeros((d, d), B.like())
            for i in range(d):
                M[(i + 1) % d, i] = ref.const(1, B.like())
            op, O = Operation(CustomStateOperationType.Custom, operator=B.const_array(M) if B.mode == "real" else B.jnp.ndarray(M)), M
        s.apply_operation(op)
        fin = W.snapshot()
        # the operation's own map is C01's subject (from any well-formed pre-state); here it is re-checked numerically
        # only while everything involved is pure-level (cheap), otherwise the continuation must merely succeed and
        # leave a structurally well-formed graph
        pure = mid.is_pure_level(mid.live()) and fin.is_pure_level(fin.live())
        if pure:
            if O is None:
                checks.compare_unchanged(B, W, mid, fin, "C05/continuation (phase shift 0)", observe=False)
            else:
                checks.compare_joint(B, W, mid, fin, [s], None, "C05/continuation", renorm=True, observe=False,
                                     operator=lambda dims_, pos_: O)
        checks.check_wf(B, W, fin, "C05/continuation wf", unit=True, numeric=pure)
