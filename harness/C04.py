"""C04 - measurement outcomes follow the Born rule (see harness/measure_common.py)."""
from harness import measure_common as mc

ASSUMPTIONS = [
    "jax.random.choice is a nondeterministic stub: any index k with p[k] > 0 may be returned (every such outcome is explored); "
    "statistical quality of the real PRNG is trusted",
    "reals, not floats; contraction off; Matrix-level contents quantified over unit-trace Hermitian matrices, counterexamples "
    "confirmed over rank<=2 density matrices",
    "structure (layouts, measured subsystem, entry point, flags) is the enumerated bound",
    "jnp.isclose / jnp.allclose (label contraction of a polarization vector, normalisation asserts) are read as exact "
    "equality: the difference between `equal` and `within 1e-8` is outside a claim over the reals",
]
BOUNDS = {
    "quick": "<=2 envelopes (Fock cut-off 2) + <=1 custom (dim 2); blocks of <=3 members; every outcome branch; all four flag "
             "combinations; state / envelope / composite entry points",
    "thorough": "as quick plus Matrix level at every position",
}
OPTS = {"quick": {"max_paths": 160, "timeout_ms": 10000, "case_timeout_s": 900, "exact_close": True},
        "thorough": {"max_paths": 128, "timeout_ms": 30000, "case_timeout_s": 3000, "exact_close": True}}

cases = mc.cases


def scenario(B, case):
    return mc.scenario(B, case, "C04")
