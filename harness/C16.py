"""C16 - the expression interpreter computes the documented algebra, side-effect free.

One structural case = one expression tree (all type-correct trees of depth <= 2 over the seven commands with a reduced
leaf alphabet, plus hand-written depth-3 trees) x a leaf typing (jax array / numpy array / context name / scalar).
Leaves are fully symbolic 2x2 complex matrices and complex scalars.  Obligations: the returned value equals an
independent evaluator entrywise (expm is an uninterpreted function with congruence in the symbolic run); every numpy
leaf and the context are unchanged afterwards; context callables receive the dimension list; malformed heads raise."""
import itertools

from symx import ref
from harness import common as cm

ASSUMPTIONS = [
    "expm of a symbolic matrix is an uninterpreted function (equal arguments give equal results); numeric in replays",
    "division by a symbolic scalar forks on zero; the zero side is a division error in both implementation and reference",
    "tree shapes, leaf typings and the dimension list are the enumerated bound; leaf values symbolic",
    "unknown head symbol: CrossHair (engine E2) with a symbolic str of length <= 6, per-condition timeout 60 s, plus a "
    "reachability twin that must be refuted",
]
BOUNDS = {"quick": "all type-correct trees of depth <= 2 over add/sub/s_mult/m_mult/kron/expm/div with arity <= 3 over a reduced leaf "
                   "alphabet (sampled leaf typings), 6 depth-3 trees, 2x2 leaves",
          "thorough": "all leaf typings"}
OPTS = {"quick": {"max_paths": 16, "timeout_ms": 10000, "case_timeout_s": 600},
        "thorough": {"max_paths": 16, "timeout_ms": 30000, "case_timeout_s": 1200}}

# leaf tokens: "A".."D" matrices (typing decides jax / numpy / context), "s","t" scalars
# shape of a tree: 2 (2x2) or 4 (4x4) or 0 (scalar)


def _shape(e):
    if isinstance(e, str):
        return 0 if e in ("s", "t") else 2
    op, *args = e
    sh = [_shape(a) for a in args]
    if op in ("add", "sub"):
        return sh[0] if len(set(sh)) == 1 and sh[0] != 0 else None
    if op == "s_mult":
        mats = [x for x in sh if x != 0]
        if any(x is None for x in sh) or len(mats) != 1:
            return None
        return mats[0]
    if op == "m_mult":
        return sh[0] if len(set(sh)) == 1 and sh[0] not in (0, None) else None
    if op == "kron":
        if any(x in (0, None) for x in sh):
            return None
        n = 1
        for x in sh:
            n *= x
        return n if n <= 8 else None
    if op == "expm":
        return sh[0] if sh[0] not in (0, None) else None
    if op == "div":
        if sh[0] in (0, None) or sh[1] is None:
            return None
        return sh[0] if sh[1] in (0, sh[0]) else None
    return None


def _depth1():
    M = ["A", "B", "C"]
    out = []
    for a, b in itertools.permutations(M, 2):
        out += [("add", a, b), ("sub", a, b), ("m_mult", a, b), ("kron", a, b), ("div", a, b)]
    out += [("add", "A", "B", "C"), ("m_mult", "A", "B", "C"), ("m_mult", "C", "A", "B"), ("kron", "A", "B", "C"),
            ("kron", "B", "C", "A"), ("s_mult", "s", "A"), ("s_mult", "s", "t", "B"), ("s_mult", "A", "s"),
            ("s_mult", "t", "B", "s"), ("expm", "A"), ("div", "A", "s"),
            ("sub", "A", "A")]
    return out


def _depth2():
    inner = [("add", "A", "B"), ("sub", "A", "B"), ("m_mult", "A", "B"), ("kron", "A", "B"), ("s_mult", "s", "A"),
             ("expm", "A"), ("div", "A", "s")]
    out = []
    for i in inner:
        for op in ("add", "sub", "m_mult", "kron", "div"):
            for e in ((op, i, "C"), (op, "C", i)):
                if _shape(e) is not None:
                    out.append(e)
        for e in (("s_mult", "t", i), ("expm", i)):
            if _shape(e) is not None:
                out.append(e)
    for i, j in itertools.product(inner, inner):
        if i != j:
            for op in ("sub", "m_mult"):
                e = (op, i, j)
                if _shape(e) is not None and (i[0], j[0]) in (("kron", "kron"), ("add", "m_mult"), ("m_mult", "add"), ("expm", "kron"),
                                                              ("s_mult", "div")):
                    out.append(e)
    out.append(("sub", ("kron", "A", "B"), ("kron", "B", "A")))
    out.append(("m_mult", ("kron", "A", "B"), ("kron", "C", "D")))
    return out


DEPTH3 = [
    ("expm", ("s_mult", "s", ("add", ("kron", "A", "B"), ("kron", "B", "A")))),
    ("add", ("m_mult", "A", ("sub", "B", "C")), ("s_mult", "s", "t", ("m_mult", "C", "A"))),
    ("kron", ("div", ("add", "A", "B"), "s"), ("expm", ("s_mult", "t", "C"))),
    ("sub", ("m_mult", ("kron", "A", "B"), ("kron", "C", "D")), ("kron", ("m_mult", "A", "C"), ("m_mult", "B", "D"))),
    ("div", ("m_mult", ("add", "A", "B", "C"), "D"), ("s_mult", "s", "A")),
    ("s_mult", "s", ("m_mult", ("expm", "A"), ("expm", ("s_mult", "t", "A")))),
]

TYPINGS = ["JJJJ", "NNNN", "CCCC", "NJCJ", "JNNC", "CNJN"]


def _enc(e):
    return e if isinstance(e, str) else "(" + " ".join(_enc(x) for x in e) + ")"


def cases(tier):
    out = []
    trees = _depth1() + _depth2() + DEPTH3
    for k, e in enumerate(trees):
        typs = TYPINGS if tier == "thorough" else [TYPINGS[k % 3], TYPINGS[3 + k % 3]]
        for ty in typs:
            out.append({"id": f"tree/{_enc(e)}/{ty}", "what": "tree", "expr": _tolist(e), "typing": ty})
    for k, head in enumerate(["ad", "", "ADD", "mult", "kron ", "exp", 3, None]):
        out.append({"id": f"badhead/{k}", "what": "badhead", "head": head})
    out.append({"id": "crosshair/unknown-head", "what": "crosshair", "which": "main"})
    out.append({"id": "crosshair/reachability-twin", "what": "crosshair", "which": "twin"})
    return out


def _crosshair(B, which="main"):
    """engine E2: CrossHair explores the interpreter's dispatch with a SYMBOLIC head string (len <= 6)"""
    if which == "twin":
        return cm.crosshair_condition(B, "c16_head.py", "reachability_twin", expect="refuted")
    return cm.crosshair_condition(B, "c16_head.py", "unknown_head_raises")


def _tolist(e):
    return e if isinstance(e, str) else [_tolist(x) for x in e]


def _totuple(e):
    return e if isinstance(e, str) else tuple(_totuple(x) for x in e)


def scenario(B, case):
    import numpy as np

    from photon_weave.extra.expression_interpreter import interpreter

    if case["what"] == "crosshair":
        return _crosshair(B, case.get("which", "main"))
    if case["what"] == "badhead":
        raised = False
        try:
            interpreter((case["head"], 1, 2), {}, [2])
        except (ValueError, TypeError, KeyError):
            raised = True
        except Exception:
            raised = True
        B.require_structural(raised, f"C16: unknown command {case['head']!r} did not raise")
        return

    expr = _totuple(case["expr"])
    ty = dict(zip("ABCD", case["typing"]))
    dims = [2, 3]
    leaves, refs, numpy_leaves, calls = {}, {}, {}, []
    context = {}
    for name in "ABCD":
        kind = ty[name]
        if kind == "N":
            M = B.operator(name, 2, numpy_array=True)
            leaves[name] = M
            numpy_leaves[name] = (M, M.copy())
            refs[name] = B.np(M).copy()
        else:
            M = B.operator(name, 2)
            refs[name] = B.np(M).copy() if B.mode == "real" else B.np(M).copy()
            if kind == "J":
                leaves[name] = M
            else:
                def mk(M=M, name=name):
                    def f(d):
                        calls.append((name, d))
                        return M
                    return f
                context["ctx" + name] = mk()
                leaves[name] = "ctx" + name
    for name in "st":
        v = B.complex(name)
        leaves[name] = v
        refs[name] = v
    ctx_before = dict(context)

    def subst(e):
        if isinstance(e, str):
            return leaves[e]
        return (e[0],) + tuple(subst(x) for x in e[1:])

    def expm_(M):
        if B.mode == "real":
            import scipy.linalg as sl

            return sl.expm(np.asarray(M, dtype=complex))
        from jax.scipy.linalg import expm as shim_expm

        return B.np(shim_expm(B.jnp.ndarray(M)))

    def ev(e):
        if isinstance(e, str):
            return refs[e]
        op, *args = e
        vals = [ev(a) for a in args]
        if op == "add":
            acc = vals[0]
            for v in vals[1:]:
                acc = acc + v
            return acc
        if op == "sub":
            return vals[0] - vals[1]
        if op == "s_mult":
            acc = vals[0]
            for v in vals[1:]:
                acc = v * acc if not isinstance(v, np.ndarray) else v * acc
            return acc
        if op == "m_mult":
            acc = vals[0]
            for v in vals[1:]:
                acc = ref.matmul(acc, v)
            return acc
        if op == "kron":
            acc = vals[0]
            for v in vals[1:]:
                acc = ref.kron(acc, v)
            return acc
        if op == "expm":
            return expm_(vals[0])
        if op == "div":
            return vals[0] / vals[1]
        raise ValueError(op)

    got = interpreter(subst(expr), context, dims)
    want = ev(expr)
    g = B.np(got)
    if hasattr(B, "observed") and not _has_expm(expr):
        B.observed["value"] = g
    if tuple(g.shape) != tuple(np.shape(want)):
        B.require_structural(False, f"C16: result shape {tuple(g.shape)} != {tuple(np.shape(want))}")
    else:
        B.require_zero([g - want], "C16: interpreter value equals the independent evaluation", "value")
    for name, (arr, copy) in numpy_leaves.items():
        B.require_zero([B.np(arr) - B.np(copy)], f"C16: numpy leaf {name} was modified by the evaluation", "side-effect")
    B.require_structural(set(context) == set(ctx_before) and all(context[k] is ctx_before[k] for k in context),
                         "C16: the context dictionary was modified")
    B.require_structural(all(list(d) == dims for _, d in calls), f"C16: context callables were called with {calls[:2]}, expected {dims}")
    used = {x for x in _leaves(expr) if ty.get(x) == "C"}
    B.require_structural({n for n, _ in calls} == used, f"C16: context entries called: {sorted({n for n, _ in calls})}, used: {sorted(used)}")


def _leaves(e):
    if isinstance(e, str):
        return [e]
    out = []
    for x in e[1:]:
        out += _leaves(x)
    return out


def _has_expm(e):
    if isinstance(e, str):
        return False
    return e[0] == "expm" or any(_has_expm(x) for x in e[1:])
