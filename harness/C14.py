"""C14 - runs are reproducible from the seed and random draws are never reused.

jax.random is modelled as a free algebra of keys (Seed(s) | split(k, i)); the sampler stub logs the key of every draw.
One structural case = one program (a projective or generalised measurement at some storage location / entry point /
flag combination, or a sequence of two such calls), run after unrelated earlier random activity and a re-seed.
Obligations on every outcome branch:
  * the i-th draw after set_seed(s) uses exactly the key first(split(second^i(Seed s))) - i.e. every random decision goes
    through Config.random_key, in order, and nothing else consumes or supplies keys: the key sequence (hence, by JAX's
    determinism, the outcome sequence and the final states) depends only on the seed, not on what ran earlier;
  * the keys of all draws are pairwise distinct and differ from the key retained in Config (no reuse);
  * (solver) pairwise distinctness is additionally discharged as an algebraic-datatype query with a symbolic seed."""
from harness import common as cm
from harness import measure_common as mc

ASSUMPTIONS = [
    "jax.random.PRNGKey / split form a free algebra (distinct derivations give independent streams; JAX's guarantee, trusted); "
    "jax.random.choice with equal key and equal p returns the same value (determinism of JAX, trusted)",
    "the programs (measurement sites x locations x flags, sequences of two calls) are the enumerated bound; every outcome branch "
    "is explored",
]
BOUNDS = {"quick": "every projective-measurement case of C04 with destructive flags, POVM at the three entry points, sequences of two "
                   "calls; <= 6 draws per program",
          "thorough": "all flag combinations"}
OPTS = {"quick": {"max_paths": 160, "timeout_ms": 10000, "case_timeout_s": 900, "exact_close": True},
        "thorough": {"max_paths": 128, "timeout_ms": 30000, "case_timeout_s": 1800, "exact_close": True}}


def cases(tier):
    out = []
    for c in mc.cases(tier):
        if tier == "quick" and not (c["dest"] or c["id"].startswith("pol/E1") or c["id"].startswith("envelope")):
            continue
        d = dict(c)
        d["id"] = "measure/" + c["id"]
        d["what"] = "measure"
        out.append(d)
    from harness import C09

    for c in C09.cases(tier):
        if c["kind"] == "two" or "/S-V/" in c["id"] or "/E1-FP-V/" in c["id"] or "/C1-pos1-M/" in c["id"] or "/C1-pos0-V/" in c["id"]:
            d = dict(c)
            d["id"] = "povm/" + c["id"]
            d["what"] = "povm"
            out.append(d)
    # two calls in one program
    S = cm.subs(2, 1, 2, 2)
    w = cm.world(S, [{"kind": "env", "env": "e0", "order": "PF", "level": "V"},
                     {"kind": "ps", "ce": 0, "members": ["p1", "c0"], "level": "V"}], [["e0", "e1", "c0"]])
    out.append({"id": "sequence/envelope-then-composite", "what": "sequence", "world": w})
    w2 = cm.world(cm.subs(2, 0, 2), [{"kind": "env", "env": "e0", "order": "FP", "level": "M"},
                                     {"kind": "env", "env": "e1", "order": "FP", "level": "M"}])
    out.append({"id": "sequence/two-identical-envelopes", "what": "sequence2", "world": w2})
    return out


def _keyrepr(B, k):
    if B.mode == "sym":
        return k
    import numpy as np

    return tuple(np.asarray(k).reshape(-1).tolist())


def _program(B, case):
    """builds the world, makes the earlier random activity, re-seeds and runs the program; returns (Config, seed, index of
    the first draw of the program in the sampler log)"""
    from symx.world import World

    W = World(B, case["world"])
    C = W.h.Config()
    # unrelated earlier activity: consume some keys under another seed, then under the SAME seed value, then re-seed
    # (re-seeding with the value that is already active must rewind the chain as well)
    seed = "S" if B.mode == "sym" else 20240917
    for _ in range(2):
        C.random_key
    C.set_seed(seed)
    for _ in range(3):
        C.random_key
    n_before = len(B.get_draws())
    C.set_seed(seed)
    what = case["what"]
    if what == "measure":
        ts = [W.sub(n) for n in case["targets"]]
        mc.do_measure(W, case, ts)
    elif what == "povm":
        from harness import C09

        ts = [W.sub(n) for n in case["targets"]]
        api, _ = C09.make_povm(B, [int(t.dimensions) for t in ts])
        if case["entry"] == "state":
            ts[0].measure_POVM(api, destructive=case["dest"], partial=case["partial"])
        elif case["entry"] == "envelope":
            ts[0].envelope.measure_POVM(api, *ts, destructive=case["dest"])
        else:
            W.ces[0].measure_POVM(api, *ts, destructive=case["dest"])
    elif what == "sequence":
        W.envs["e0"].measure()
        W.ces[0].measure(W.sub("p1"), separate_measurement=True, destructive=False)
        W.sub("c0").measure()
    elif what == "sequence2":
        W.envs["e0"].measure()
        W.envs["e1"].measure()
    return C, seed, n_before


def scenario(B, case):
    import jax

    C, seed, n_before = _program(B, case)
    draws = B.get_draws()[n_before:]
    # expected key sequence: exactly the successive Config.random_key values after the re-seed
    k = jax.random.PRNGKey(seed)
    expected = []
    for _ in range(len(draws) + 1):
        a, k = jax.random.split(k)
        expected.append(a)
    got = [_keyrepr(B, d["key"]) for d in draws]
    exp = [_keyrepr(B, e.term if B.mode == "sym" else e) for e in expected]
    for i, g in enumerate(got):
        B.require_structural(g == exp[i], f"C14: draw {i} (site {draws[i].get('site', '?')}) does not use the {i}-th key of the "
                                          f"seeded chain (key {str(g)[:80]})")
    B.require_structural(len(set(map(str, got))) == len(got), "C14: a PRNG key is used for more than one draw")
    retained = _keyrepr(B, C._key.term if B.mode == "sym" else C._key)
    B.require_structural(all(str(g) != str(retained) for g in got), "C14: a draw used the key that Config retains")
    if B.mode == "sym" and len(got) >= 2:
        _adt_distinct(B, got + [retained])
    vector_only = not any(b.get("level") == "M" for b in case["world"]["blocks"])
    if len(draws) >= 2 and case["what"] in ("measure", "sequence") and vector_only:
        # (bound: projective measurements on worlds without matrix-level blocks - the twin doubles the work of a path)
        # twin run: the same program on a fresh world with the same contents, the same seed and the same outcome for the same
        # key must make the same random decisions in the same order - the probability vector handed to the i-th draw is the
        # same (nothing but the seed and the program decides which measurement gets which key)
        B.begin_twin({str(d["key"]): d["k"] for d in draws})
        try:
            _, _, n2 = _program(B, case)
        finally:
            B.end_twin()
        draws2 = B.get_draws()[n2:]
        B.require_structural(len(draws2) == len(draws), f"C14: twin run made {len(draws2)} draws, the first run {len(draws)}")
        for i, (d1, d2) in enumerate(zip(draws, draws2)):
            same_key = str(_keyrepr(B, d1["key"])) == str(_keyrepr(B, d2["key"]))
            B.require_structural(same_key and len(d1["p"] or []) == len(d2["p"] or []),
                                 f"C14: draw {i} of the twin run uses another key or another number of outcomes")
            if same_key and d1["p"] is not None and d2["p"] is not None and len(d1["p"]) == len(d2["p"]):
                B.require_zero([_sc(B, a) - _sc(B, b) for a, b in zip(d1["p"], d2["p"])],
                               f"C14: draw {i} gets a different probability vector in a twin run of the same seeded program "
                               f"(which measurement receives which key is not decided by the seed alone)", "twin-run")


def _sc(B, x):
    if B.mode == "real":
        return complex(x)
    from symx import core

    return core.SC.lift(x)


def _adt_distinct(B, terms):
    """pairwise distinctness of key terms for EVERY integer seed, as a z3 algebraic-datatype query"""
    import z3

    from symx import smt

    Key = z3.Datatype("Key")
    Key.declare("Seed", ("s", z3.IntSort()))
    Key.declare("L", ("l", Key))
    Key.declare("R", ("r", Key))
    Key = Key.create()
    s = z3.Int("s")

    def enc(t):
        if t[0] == "seed":
            return Key.Seed(s)
        _, inner, i = t
        return (Key.L if i == 0 else Key.R)(enc(inner))

    ts = [enc(t) for t in terms]
    sol = z3.Solver()
    sol.set("timeout", 10000)
    sol.add(z3.Or([ts[i] == ts[j] for i in range(len(ts)) for j in range(i + 1, len(ts))]))
    r = str(sol.check())
    smt.STATS["queries"] += 1
    smt.STATS[r if r in smt.STATS else "unknown"] += 1
    B.EXP.tot["obligations"] += 1
    if r == "unsat":
        B.EXP.tot["discharged_by_solver"] += 1
    else:
        B.require_structural(False, f"C14: two key terms coincide for some seed (ADT query: {r})")
