"""C06 - Kraus channels are applied as sum_i K_i rho K_i^+ on the named subsystems.

One structural case = target(s) x storage layout x level x entry point x operator family.
Operator families:
  sym2    two fully symbolic d x d operators; the library's completeness test is a solver-decided branch: on the
          "accepted" side the map identity is checked, the "rejected" side must raise (details in C17)
  damp    amplitude damping with sqrt(gamma) = sin(t), sqrt(1-gamma) = cos(t), t symbolic   (d = 2)
  mixU    K_0 = cos(t) U_0, K_1 = sin(t) U_1 with concrete unitaries U_i (exactly trace preserving for all t)
  sel     K_k = |k><k| (complete dephasing) for Fock / custom dimension d
Assertions: joint post-state == sum_i (K_i x 1) rho (K_i x 1)^+ on the component of the targets (operator factors
bound to the targets in the order given), other components unchanged, unit trace for the exactly trace-preserving
families, the targets' block is held as a density matrix, WF(post)."""
import itertools

from fractions import Fraction

from symx import checks, ref
from harness import common as cm

ASSUMPTIONS = [
    "reals, not floats; contraction off; where the library contracts unconditionally (Envelope.apply_kraus) the purity "
    "test is a solver-decided fork: the mixed side is verified to the end, the pure side is cut at eigh",
    "completeness tolerance of kraus_identity_check (1e-6) evaluated literally over the reals",
    "family sym2 only: Envelope.contract (called unconditionally by Envelope.apply_kraus) is replaced by a no-op, because "
    "its purity test on symbolic operators x symbolic state cannot be constructed in budget; the other families run it",
    "structure (layouts, targets, entry points, number of operators <= 2..3) is the enumerated bound",
]
BOUNDS = {
    "quick": "<=2 envelopes (Fock cut-off 2) + <=1 custom (dim 2); one target with 2 fully symbolic operators at every layout x "
             "entry point; two targets (either order) with cos/sin mixtures of concrete 4x4 unitaries",
    "thorough": "as quick plus Matrix level everywhere, Fock cut-off 3 with dephasing, three operators",
}
OPTS = {"quick": {"max_paths": 24, "timeout_ms": 10000, "case_timeout_s": 900},
        "thorough": {"max_paths": 48, "timeout_ms": 30000, "case_timeout_s": 3000}}


def cases(tier):
    out = []
    thorough = tier == "thorough"
    for kind in ("pol", "fock", "custom"):
        for lid, w, t, entries in cm.layouts_for_target(kind, tier, dF=2, dC=2):
            for entry in entries:
                fams = ["sym2", "damp"]
                if tier == "quick" and not (lid.startswith("C1-pos") or lid.startswith("E1") or lid in ("S-V", "S-L")):
                    fams = ["sym2"]
                if lid.startswith("C1-pos") or lid.startswith("C0") or lid in ("S-V", "E1-PF-M", "E1-FP-V"):
                    fams = fams + ["mix3"]  # three operators (all acting non-trivially)
                for fam in fams:
                    out.append({"id": f"{kind}/{lid}/{entry}/{fam}", "kind": kind, "world": w, "targets": [t],
                                "entry": entry, "fam": fam})
    # two targets
    S = cm.subs(2, 1, 2, 2)
    comp = [["e0", "e1", "c0"]]
    two = []
    two.append(("E0-VV", cm.world(cm.subs(1, 0, 2), [{"kind": "own", "sub": "f0", "level": "V"},
                                                    {"kind": "own", "sub": "p0", "level": "V"}]), ["envelope"],
                [("f0", "p0"), ("p0", "f0")]))
    for order in ("FP", "PF"):
        for lvl in ("V", "M"):
            two.append((f"E1-{order}-{lvl}", cm.world(cm.subs(1, 0, 2), [{"kind": "env", "env": "e0", "order": order, "level": lvl}]),
                        ["envelope"], [("f0", "p0"), ("p0", "f0")]))
    two.append(("C-own", cm.world(S, [{"kind": "own", "sub": "p0", "level": "V"}, {"kind": "own", "sub": "p1", "level": "V"},
                                      {"kind": "own", "sub": "c0", "level": "V"}], comp), ["composite"],
                [("p0", "p1"), ("p1", "p0"), ("c0", "p1")]))
    two.append(("C-E0same", cm.world(S, [{"kind": "own", "sub": "p0", "level": "V"}, {"kind": "own", "sub": "f0", "level": "V"}], comp),
                ["composite"], [("p0", "f0"), ("f0", "p0")]))
    two.append(("C-envPF+own", cm.world(S, [{"kind": "env", "env": "e0", "order": "PF", "level": "V"},
                                            {"kind": "own", "sub": "p1", "level": "V"}], comp), ["composite"],
                [("p0", "p1"), ("p1", "p0"), ("p0", "f0")]))
    two.append(("C-ps[p1,c0,p0]-V", cm.world(S, [{"kind": "ps", "ce": 0, "members": ["p1", "c0", "p0"], "level": "V"}], comp),
                ["composite"], [("p0", "p1"), ("p1", "p0"), ("c0", "p0")]))
    two.append(("C-ps[p0,c0]+ps[f1,p1]-V", cm.world(S, [{"kind": "ps", "ce": 0, "members": ["p0", "c0"], "level": "V"},
                                                        {"kind": "ps", "ce": 0, "members": ["f1", "p1"], "level": "V"}], comp),
                ["composite"], [("p0", "p1"), ("p1", "c0")]))
    two.append(("C-ps[c0,p1,p0]-M", cm.world(S, [{"kind": "ps", "ce": 0, "members": ["c0", "p1", "p0"], "level": "M"}], comp),
                ["composite"], [("p0", "p1"), ("p1", "c0")]))
    two.append(("C-ps[p0,p1]-M+own", cm.world(S, [{"kind": "ps", "ce": 0, "members": ["p0", "p1"], "level": "M"},
                                                  {"kind": "own", "sub": "c0", "level": "V"}], comp),
                ["composite"], [("c0", "p1"), ("p1", "p0")]))
    for lid, w, entries, pairs in two:
        for entry in entries:
            for pr in pairs:
                fams = ["mixU"] + (["sym2"] if thorough and not lid.endswith("-M") else [])
                if lid.startswith("C-ps") or lid == "C-own":
                    fams = fams + ["mix3"]
                for fam in fams:
                    out.append({"id": f"two/{lid}/{entry}/{','.join(pr)}/{fam}", "kind": "two", "world": w,
                                "targets": list(pr), "entry": entry, "fam": fam})
    if thorough:
        for lid, w, t, entries in cm.layouts_for_target("fock", tier, dF=3, dC=2):
            for entry in entries:
                out.append({"id": f"fock3/{lid}/{entry}/sel", "kind": "fock", "world": w, "targets": [t], "entry": entry,
                            "fam": "sel"})
    return out


def _cx(B):
    like = B.like()
    M = ref.zeros((4, 4), like)
    for i, j in ((0, 0), (1, 1), (2, 3), (3, 2)):
        M[i, j] = ref.const(1, like)
    return M


def make_operators(B, case, dims):
    """returns (list of operators for the API, list of reference operators, exactly_trace_preserving)"""
    fam = case["fam"]
    D = 1
    for d in dims:
        D *= d
    like = B.like()
    if fam == "sym2":
        Ks = [B.operator("K0", D), B.operator("K1", D)]
        return Ks, [B.np(K) for K in Ks], False
    if fam == "damp":
        assert D == 2
        t = B.angle("t", 1)
        c, s = B.cos_sin(t)
        K0 = cm.mat(B, [[1, 0], [0, c]])
        K1 = cm.mat(B, [[0, s], [0, 0]])
        return [B.const_array(K0) if B.mode == "real" else B.jnp.ndarray(K0),
                B.const_array(K1) if B.mode == "real" else B.jnp.ndarray(K1)], [K0, K1], True
    if fam == "sel":
        Ks = []
        for k in range(D):
            M = ref.zeros((D, D), like)
            M[k, k] = ref.const(1, like)
            Ks.append(M)
        return [B.const_array(K) if B.mode == "real" else B.jnp.ndarray(K) for K in Ks], Ks, True
    if fam == "mix3":
        # K0 = cos t U0, K1 = 0.6 sin t U1, K2 = 0.8 sin t U2 with concrete unitaries: complete for every t
        t = B.angle("t", 1)
        c, s = B.cos_sin(t)
        if D == 4:
            Us = [_cx(B), ref.kron(cm.pol_gate(B, "H"), cm.pol_gate(B, "S")), ref.kron(cm.pol_gate(B, "Z"), cm.pol_gate(B, "X"))]
        elif D == 2:
            Us = [cm.identity(B, 2), cm.pol_gate(B, "X"), cm.pol_gate(B, "S") @ cm.pol_gate(B, "H")]
        else:
            raise ValueError("mix3 needs total dimension 2 or 4")
        Ks = [Us[0] * c, Us[1] * (s * ref.const(Fraction(3, 5), like)), Us[2] * (s * ref.const(Fraction(4, 5), like))]
        return [B.const_array(K) if B.mode == "real" else B.jnp.ndarray(K) for K in Ks], Ks, True
    if fam == "mixU":
        assert len(dims) == 2 and D == 4
        t = B.angle("t", 1)
        c, s = B.cos_sin(t)
        U0 = _cx(B)  # control = first target: not symmetric under exchanging the targets
        U1 = ref.kron(cm.pol_gate(B, "H"), cm.pol_gate(B, "S"))
        K0, K1 = U0 * c, U1 * s
        return [B.const_array(K) if B.mode == "real" else B.jnp.ndarray(K) for K in (K0, K1)], [K0, K1], True
    raise ValueError(fam)


def scenario(B, case):
    from symx.explore import Cut
    from symx.world import World

    W = World(B, case["world"])
    h = W.h
    ts = [W.sub(n) for n in case["targets"]]
    dims = [int(t.dimensions) for t in ts]
    Ks, Kref, exact = make_operators(B, case, dims)
    pre = W.snapshot()
    rejected = False
    restore = None
    if case["fam"] == "sym2":
        # Envelope.apply_kraus contracts unconditionally; its purity test tr(rho'^2) on symbolic operators x symbolic
        # state is a degree-8 polynomial whose construction does not finish.  For this family the contraction step
        # is skipped (the map is checked on the state handed to contract()); the damp / mixU families run it.
        restore = h.Envelope.contract
        h.Envelope.contract = lambda self, *a, **k: None
    try:
        if case["entry"] == "state":
            ts[0].apply_kraus(Ks)
        elif case["entry"] == "envelope":
            ts[0].envelope.apply_kraus(Ks, *ts)
        else:
            W.ces[0].apply_kraus(Ks, *ts)
    except ValueError as e:
        if "do not sum to the identity" not in str(e):
            raise
        rejected = True
    finally:
        if restore is not None:
            h.Envelope.contract = restore
    if rejected:
        # only a set that fails the completeness test may be rejected: the test's negation must be feasible here
        if exact:
            B.require(False, "C06: exactly trace-preserving operator set rejected", "rejected-valid")
        raise Cut("rejected Kraus set (subject of C17)")
    post = W.snapshot()
    checks.compare_joint(B, W, pre, post, ts, lambda rho, d, pos: ref.kraus(rho, d, pos, Kref), "C06", renorm=False)
    checks.check_wf(B, W, post, "C06/wf", unit=exact)
    b = post.block_of(ts[0])
    # (with automatic contraction on, a result that is pure may legitimately be contracted: "unless it is provably pure")
    B.require_structural(case["world"].get("contraction") or (b is not None and b.level == h.ExpansionLevel.Matrix),
                         f"C06: channel result of {case['targets']} is held as a density matrix (level {b.level if b else None})")
