"""C13 - the object graph's bookkeeping is always truthful.

One structural case = one history of 2..4 public calls (composite-envelope constructions and merges - including merging
handles that already share a container and chains of merges -, combines, reorders, operations, channels, measurements,
partial traces, resizes) over 3 envelopes + 1 custom state in up to two independent composite envelopes.  Contents of
the blocks are symbolic, so every value-dependent branch (Fock.__eq__ -> allclose in list membership tests, support
guards) is decided by the solver and both sides are explored.
After EVERY call the structural well-formedness predicate is evaluated over the whole object graph: each live subsystem
is stored in exactly one place and its index names that place; merged handles resolve to one container and see the same
envelopes / subsystems / product spaces; member envelopes and stored subsystems point back to their composite; no product
space is listed twice or left empty; destroyed subsystems are listed nowhere; and the objects of the unrelated composite
envelope are the same objects with term-identical arrays (isolation).  After purely structural calls (merge, combine,
reorder) the joint state read through the indices equals the joint state held before (polynomial identities): a member
list that does not match the tensor factors is an index that does not name the place.  Otherwise the assertion is
discrete and the solver's share is path feasibility (stated in the evidence)."""
from symx import checks
from harness import common as cm

ASSUMPTIONS = [
    "histories are the enumerated bound (curated list, 2..4 calls); block contents symbolic",
    "the assertion is structural (discrete); the solver decides value-dependent branches and path feasibility only",
    "reals, not floats; contraction off; isclose/allclose read as exact equality",
]
BOUNDS = {"quick": "3 envelopes (Fock cut-off 2) + 1 custom state, <= 2 independent composite envelopes (+ merged handles), histories of "
                   "2..4 calls from a curated list of ~70",
          "thorough": "same histories, all Focks at equal labels as well"}
OPTS = {"quick": {"max_paths": 48, "timeout_ms": 10000, "case_timeout_s": 900, "exact_close": True},
        "thorough": {"max_paths": 96, "timeout_ms": 30000, "case_timeout_s": 1800, "exact_close": True}}


def _worlds():
    S = cm.subs(3, 1, 2, 2)
    W = {}
    # A: one composite {e0,e1,c0} with two product spaces, a second composite {e2}
    W["A"] = cm.world(S, [{"kind": "ps", "ce": 0, "members": ["p0", "c0"], "level": "V"},
                          {"kind": "ps", "ce": 0, "members": ["f1", "p1"], "level": "V"},
                          {"kind": "env", "env": "e2", "order": "PF", "level": "V"},
                          {"kind": "own", "sub": "f0", "level": "V"}], [["e0", "e1", "c0"], ["e2"]])
    # B: two composites each with a product space
    W["B"] = cm.world(S, [{"kind": "ps", "ce": 0, "members": ["p0", "f0"], "level": "V"},
                          {"kind": "ps", "ce": 1, "members": ["p1", "c0"], "level": "M"},
                          {"kind": "own", "sub": "f2", "level": "V"}], [["e0"], ["e1", "c0", "e2"]])
    # C: three product spaces in one composite (positions shift when one is absorbed / emptied)
    W["C"] = cm.world(S, [{"kind": "ps", "ce": 0, "members": ["p0", "f0"], "level": "V"},
                          {"kind": "ps", "ce": 0, "members": ["p1", "c0"], "level": "V"},
                          {"kind": "ps", "ce": 0, "members": ["p2", "f2"], "level": "V"}], [["e0", "e1", "e2", "c0"]])
    # E: two composites, a free third envelope (merge chains)
    W["E"] = cm.world(S, [{"kind": "ps", "ce": 0, "members": ["p0", "f0"], "level": "V"},
                          {"kind": "own", "sub": "p1", "level": "V"}, {"kind": "own", "sub": "p2", "level": "V"}],
                      [["e0"], ["e1", "c0"]])
    # D: nothing combined, label states (equal Fock labels), two composites
    W["D"] = cm.world(S, [], [["e0", "e1"], ["e2", "c0"]])
    return W


HISTORIES = {
    "A": [
        [("cx", 0, "p0", "p1")],
        [("cx", 0, "p1", "p0"), ("measure", 0, ["p0"], True, True)],
        [("merge", 0, 1), ("cx", 2, "p2", "p0")],
        [("merge", 0, 1), ("merge", 2, 0), ("combine", 3, ["p2", "c0"])],
        [("merge", 1, 0), ("measure", 2, ["p1"], False, True), ("op", "p0")],
        [("merge-env", 0, "e2"), ("combine", 2, ["f2", "f0"]), ("measure", 2, ["f0"], True, False)],
        [("combine", 0, ["f0", "p1"]), ("reorder", 0, ["p1", "f0"]), ("kraus", 0, ["p1"])],
        [("measure", 0, ["p0"], True, True), ("op", "p1"), ("combine", 0, ["p1", "f0"])],
        [("measure", 0, ["c0"], False, True), ("combine", 0, ["c0", "p1"])],
        [("measure", 0, ["f1"], False, True), ("op", "p0"), ("merge", 0, 1)],
        [("povm", 0, ["p0"], False), ("trace_out", 0, ["c0", "p1"])],
        [("povm", 0, ["p1"], True), ("measure", 0, ["c0"], False, True)],
        [("resize", 0, "f1", 3), ("combine", 0, ["f1", "c0"]), ("resize", 0, "f1", 2)],
        [("envmeasure", "e2", [], False, True), ("merge", 0, 1)],
        [("envmeasure", "e2", ["p2"], True, False), ("merge-env", 0, "e2")],
        [("trace_out", 0, ["p1", "p0"]), ("measure", 0, ["p1"], True, True), ("op", "c0")],
        [("merge", 0, 0)],
        [("merge", 0, 0), ("cx", 2, "p0", "p1")],
        [("rehandle", 0), ("cx", 2, "p0", "p1"), ("measure", 0, ["p0"], False, True)],
    ],
    "B": [
        [("merge", 0, 1)],
        [("merge", 0, 1), ("cx", 2, "p0", "p1")],
        [("merge", 1, 0), ("cx", 0, "p1", "p0"), ("measure", 1, ["p1"], False, True)],
        [("merge", 0, 1), ("merge", 2, 1), ("combine", 0, ["f2", "p0"])],
        [("merge", 0, 1), ("rehandle", 2), ("measure", 3, ["p0"], True, True), ("op", "p1")],
        [("cx1", 1, "p1", "p2"), ("merge", 0, 1), ("kraus", 2, ["p0", "p2"])],
        [("measure", 0, ["p0"], False, True), ("merge", 0, 1)],
        [("measure", 1, ["c0"], False, True), ("merge", 1, 0), ("combine", 2, ["c0", "f0"])],
        [("op", "p0"), ("measure", 1, ["p1"], True, False), ("merge", 0, 1), ("cx", 2, "p0", "p1")],
        [("merge-env", 0, "e2"), ("combine", 2, ["p2", "p0"])],
        [("merge-env", 0, "e1"), ("trace_out", 2, ["p1", "p0"])],
        [("povm", 1, ["p1"], True), ("merge", 0, 1)],
        # calls that re-order members INSIDE a product space that came in through a merge (its position in the merged list
        # differs from the one it had in its old container)
        [("merge", 0, 1), ("reorder", 2, ["c0", "p1"])],
        [("merge", 1, 0), ("reorder", 2, ["f0", "p0"])],
        [("merge", 0, 1), ("kraus", 2, ["c0"])],
        [("merge", 0, 1), ("trace_out", 2, ["c0"])],
        [("merge", 1, 0), ("povm", 2, ["f0"], False)],
    ],
    # chains of merges: an old handle whose uid was re-assigned by an earlier merge must follow later merges
    "E": [
        [("merge-env", 0, "e2"), ("merge", 1, 2)],
        [("merge-env", 0, "e2"), ("merge", 1, 2), ("cx", 0, "p2", "p0")],
        [("merge-env", 0, "e2"), ("merge", 1, 2), ("combine", 0, ["p0", "p1"]), ("measure", 3, ["p0"], True, True)],
        [("rehandle", 0), ("merge", 1, 2), ("cx", 0, "p0", "p1")],
        [("merge-env", 0, "e2"), ("rehandle", 2), ("merge", 1, 3), ("cx", 0, "p1", "p2"), ("op", "p0")],
        [("merge", 1, 0), ("merge-env", 2, "e2"), ("combine", 0, ["p2", "c0"])],
    ],
    "C": [
        [("cx", 0, "p0", "p1")],
        [("cx", 0, "p0", "p1"), ("op", "p2")],
        [("cx", 0, "p1", "p2"), ("trace_out", 0, ["f0"]), ("measure", 0, ["p0"], True, True)],
        [("measure", 0, ["p0"], False, True), ("op", "p2"), ("cx", 0, "p1", "p2")],
        [("measure", 0, ["p1"], True, True), ("kraus", 0, ["p2"])],
        [("measure", 0, ["p0", "p1"], True, True), ("op", "f2")],
        [("measure", 0, ["c0"], False, True), ("measure", 0, ["p1"], True, True), ("op", "p2")],
        [("combine", 0, ["f0", "f2"]), ("op", "p1"), ("measure", 0, ["c0"], False, True)],
        [("combine", 0, ["c0", "p0"]), ("resize", 0, "f2", 3), ("cx", 0, "p2", "p1")],
        [("povm", 0, ["p0"], False), ("povm", 0, ["p2"], False), ("cx", 0, "p0", "p2")],
        [("povm", 0, ["p1"], True), ("op", "p2")],
        [("kraus", 0, ["p0", "p2"]), ("measure", 0, ["f2"], False, True)],
        [("reorder", 0, ["f2", "p2"]), ("combine", 0, ["p2", "p0"]), ("trace_out", 0, ["p1"])],
        [("rehandle", 0), ("measure", 1, ["p0"], False, True), ("cx", 0, "p1", "p2")],
    ],
    "D": [
        [("combine", 0, ["f0", "f1"])],
        [("combine", 0, ["f0", "f1"]), ("measure", 0, ["f0"], False, True)],
        [("measure", 0, ["f0", "f1"], False, True)],
        [("merge", 0, 1), ("combine", 2, ["f0", "f2"]), ("measure", 2, ["f2"], True, True)],
        [("merge", 0, 1), ("measure", 2, ["f0", "f1", "f2"], False, True)],
        [("cx", 0, "p0", "p1"), ("merge", 1, 0), ("cx", 2, "p2", "p0")],
        [("op", "f0"), ("combine", 0, ["f0", "p1"]), ("merge-env", 1, "e0")],
        [("envmeasure", "e0", [], False, True), ("merge", 0, 1), ("combine", 2, ["f1", "c0"])],
        [("kraus", 1, ["c0"]), ("merge", 0, 1), ("kraus", 2, ["c0", "p0"])],
        [("resize", 0, "f0", 4), ("combine", 0, ["f0", "f1"]), ("measure", 0, ["f1"], True, True)],
    ],
}


def cases(tier):
    out = []
    for wid, hs in HISTORIES.items():
        for k, hist in enumerate(hs):
            out.append({"id": f"{wid}/{k:02d}/" + ";".join(a[0] for a in hist), "world": wid, "history": [list(a) for a in hist]})
    return out


def _do(B, W, act):
    from photon_weave.operation import (CompositeOperationType, CustomStateOperationType, FockOperationType, Operation,
                                        PolarizationOperationType)

    h = W.h
    kind = act[0]
    if kind == "merge":
        W.ces.append(h.CompositeEnvelope(W.ces[act[1]], W.ces[act[2]]))
    elif kind == "merge-env":
        W.ces.append(h.CompositeEnvelope(W.ces[act[1]], W.envs[act[2]]))
    elif kind == "rehandle":
        W.ces.append(h.CompositeEnvelope(W.ces[act[1]]))
    elif kind == "combine":
        W.ces[act[1]].combine(*[W.sub(n) for n in act[2]])
    elif kind == "reorder":
        W.ces[act[1]].reorder(*[W.sub(n) for n in act[2]])
    elif kind in ("cx", "cx1"):
        W.ces[act[1]].apply_operation(Operation(CompositeOperationType.CXPolarization), W.sub(act[2]), W.sub(act[3]))
    elif kind == "op":
        s = W.sub(act[1])
        if isinstance(s, h.Polarization):
            s.apply_operation(Operation(PolarizationOperationType.H))
        elif isinstance(s, h.Fock):
            s.apply_operation(Operation(FockOperationType.Creation))
        else:
            d = int(s.dimensions)
            import numpy as np

            M = np.zeros((d, d))
            for i in range(d):
                M[(i + 1) % d, i] = 1
            s.apply_operation(Operation(CustomStateOperationType.Custom, operator=B.jnp.array(M)))
    elif kind == "measure":
        W.ces[act[1]].measure(*[W.sub(n) for n in act[2]], separate_measurement=act[3], destructive=act[4])
    elif kind == "envmeasure":
        W.envs[act[1]].measure(*[W.sub(n) for n in act[2]], separate_measurement=act[3], destructive=act[4])
    elif kind == "kraus":
        ts = [W.sub(n) for n in act[2]]
        D = 1
        for t in ts:
            D *= int(t.dimensions)
        import numpy as np

        K0 = np.eye(D) * (0.75 ** 0.5)
        K1 = np.zeros((D, D))
        for i in range(D):
            K1[(i + 1) % D, i] = 0.25 ** 0.5
        W.ces[act[1]].apply_kraus([B.jnp.array(K0), B.jnp.array(K1)], *ts)
    elif kind == "povm":
        ts = [W.sub(n) for n in act[2]]
        import numpy as np

        M0 = np.diag([1.0, 0.6])
        M1 = np.diag([0.0, 0.8])
        W.ces[act[1]].measure_POVM([B.jnp.array(M0), B.jnp.array(M1)], *ts, destructive=act[3])
    elif kind == "trace_out":
        W.ces[act[1]].trace_out(*[W.sub(n) for n in act[2]])
    elif kind == "resize":
        W.ces[act[1]].resize_fock(act[3], W.sub(act[2]))
    else:
        raise ValueError(kind)


def _handles_consistent(B, W, label):
    h = W.h
    CE = h.CompositeEnvelope
    for i, ce in enumerate(W.ces):
        B.require_structural(ce.uid in CE._containers, f"{label}: handle {i} has a uid without container")
    # handles that were merged (share envelopes) must resolve to the same container
    for i, a in enumerate(W.ces):
        for j, b in enumerate(W.ces):
            if j <= i or a.uid not in CE._containers or b.uid not in CE._containers:
                continue
            ca, cb = CE._containers[a.uid], CE._containers[b.uid]
            share = any(any(x is y for y in cb.envelopes) for x in ca.envelopes) or \
                any(any(x is y for y in cb.state_objs) for x in ca.state_objs)
            if share:
                B.require_structural(ca is cb, f"{label}: handles {i} and {j} share members but resolve to different containers")
    for e in W.envs.values():
        if e.composite_envelope_id is not None:
            B.require_structural(e.composite_envelope_id in CE._containers and
                                 any(x is e for x in CE._containers[e.composite_envelope_id].envelopes),
                                 f"{label}: an envelope points to a composite that does not list it")
    for o in W.all_subs():
        if getattr(o, "measured", False):
            continue
        ce = getattr(o, "composite_envelope", None)
        if isinstance(o.index, tuple):
            B.require_structural(ce is not None and ce.uid in CE._containers, f"{label}: {W.name_of(o)} stored in a composite it does not point to")


def scenario(B, case):
    from symx.world import World

    W = World(B, _worlds()[case["world"]])
    h = W.h
    snap = W.snapshot()
    checks.check_wf(B, W, snap, "C13/initial", unit=False, numeric=False)
    for step, act in enumerate(case["history"]):
        label = f"C13/after call {step + 1} ({act[0]})"
        # isolation: remember the objects of composites not involved in this call
        involved = _involved(W, act)
        before = _freeze(B, W, involved)
        pre = snap
        try:
            _do(B, W, act)
        except ValueError as e:
            if "entirely composed of zeros" in str(e):
                from symx.explore import Cut

                raise Cut("all-zero rejection (subject of C17)")
            raise
        snap = W.snapshot()  # raises WFError (-> violation) when an index does not name a real place
        checks.check_wf(B, W, snap, label, unit=False, numeric=False)
        _handles_consistent(B, W, label)
        if act[0] in ("merge", "merge-env", "rehandle", "combine", "reorder"):
            # a purely structural call: the indices name the place where each subsystem is stored iff the joint state read
            # through them (member list = tensor factors) is the joint state held before the call
            checks.compare_unchanged(B, W, pre, snap, f"{label}: joint state read through the indices", observe=False)
        after = _freeze(B, W, involved)
        B.require_structural(before[0] == after[0], f"{label}: the unrelated composite envelope changed structurally: "
                                                    f"{before[0]} -> {after[0]}")
        for (n0, a0), (n1, a1) in zip(before[1], after[1]):
            if a0 is not a1:
                B.require_zero([B.np(a1) - B.np(a0)], f"{label}: array of unrelated block {n0} changed", "isolation")


def _involved(W, act):
    """uids of the containers the call may touch"""
    CE = W.h.CompositeEnvelope
    uids = set()
    kind = act[0]
    if kind in ("merge",):
        uids |= {W.ces[act[1]].uid, W.ces[act[2]].uid}
    elif kind == "merge-env":
        uids.add(W.ces[act[1]].uid)
        e = W.envs[act[2]]
        if e.composite_envelope_id is not None:
            uids.add(e.composite_envelope_id)
    elif kind in ("rehandle", "combine", "reorder", "cx", "cx1", "measure", "kraus", "povm", "trace_out", "resize"):
        uids.add(W.ces[act[1]].uid)
    elif kind == "op":
        s = W.sub(act[1])
        ce = getattr(s, "composite_envelope", None)
        if ce is not None:
            uids.add(ce.uid)
        e = getattr(s, "envelope", None) if not isinstance(s, W.h.CustomState) else None
        if e is not None and e.composite_envelope_id is not None:
            uids.add(e.composite_envelope_id)
    elif kind == "envmeasure":
        e = W.envs[act[1]]
        if e.composite_envelope_id is not None:
            uids.add(e.composite_envelope_id)
    return {id(CE._containers[u]) for u in uids if u in CE._containers}


def _freeze(B, W, involved):
    """structure + arrays of every container NOT involved in the call"""
    CE = W.h.CompositeEnvelope
    struct, arrays = [], []
    seen = set()
    for ce in W.ces:
        if ce.uid not in CE._containers:
            continue
        c = CE._containers[ce.uid]
        if id(c) in involved or id(c) in seen:
            continue
        seen.add(id(c))
        struct.append(("container", tuple(id(e) for e in c.envelopes), tuple(id(s) for s in c.state_objs),
                       tuple((tuple(id(m) for m in ps.state_objs), int(ps.expansion_level)) for ps in c.states)))
        for k, ps in enumerate(c.states):
            arrays.append((f"ps{k}", ps.state))
        for e in c.envelopes:
            struct.append(("env", id(e), e.measured, e.state is None, None if e.fock.index is None else str(e.fock.index),
                           str(e.polarization.index), str(e.fock.expansion_level), str(e.polarization.expansion_level)))
            if e.state is not None:
                arrays.append(("env", e.state))
            for m in (e.fock, e.polarization):
                if hasattr(m.state, "shape"):
                    arrays.append((W.name_of(m), m.state))
                else:
                    struct.append(("label", id(m), str(m.state)))
        for s in c.state_objs:
            if isinstance(s, W.h.CustomState):
                struct.append(("custom", id(s), str(s.index), str(s.expansion_level)))
                if hasattr(s.state, "shape"):
                    arrays.append((W.name_of(s), s.state))
    return struct, arrays
