"""C09 - POVM measurement: correct probabilities and post-state at every entry point.

One structural case = target(s) x storage layout x level x entry point x destructive flag (x partial for the state
entry point).  Operators: complete, non-projective, complex sets  M_0 = V_0 diag(cos a_j) W, M_1 = V_1 diag(sin a_j) W
with concrete complex unitaries V_i, W and symbolic angles a_j (sum M^+ M = 1 holds identically; the effects
M_i^+ M_i = W^+ D_i^2 W are non-diagonal with imaginary parts), factors bound to the targets in
the order given.  The sampler stub forks over both outcomes (and over the outcomes of any follow-up projective
measurement the implementation performs).
Obligations per path: the probability vector of the POVM draw is proportional to Tr(M_i rho_T M_i^+) (and sums to
one); returned outcome = drawn index; joint post-state = (M_k x 1) rho (M_k x 1)^+ / p_k, reduced over destroyed
targets and projected on whatever follow-up outcomes are reported; targets destroyed iff destructive (custom states
never); non-destructive mode destroys nothing; bystanders unchanged; WF(post)."""
from symx import checks, ref
from harness import common as cm
from harness import measure_common as mc

ASSUMPTIONS = [
    "jax.random.choice is a nondeterministic stub (any index with p > 0); every outcome is explored",
    "reals, not floats; contraction off (where the library contracts unconditionally the pure side is cut at eigh); "
    "isclose/allclose read as exact equality",
    "operator sets are the parametrised complete families described in the module docstring (angles symbolic)",
    "structure (layouts, targets, entry points, flags) is the enumerated bound",
    "destructive POVM on a vector-level composite product space is outside the bound (sign of |diag| of a rank-one expansion "
    "is not decided by the solvers in budget); the same code runs on the Matrix-level layouts with Hermitian contents",
]
BOUNDS = {
    "quick": "<=2 envelopes (Fock cut-off 2) + <=1 custom (dim 2); one target at every layout x entry point x destructive flag; "
             "two targets (either order) on combined envelopes and composite product spaces; 2 operators",
    "thorough": "as quick plus Matrix level at every position",
}
OPTS = {"quick": {"max_paths": 160, "timeout_ms": 10000, "case_timeout_s": 900, "exact_close": True},
        "thorough": {"max_paths": 96, "timeout_ms": 30000, "case_timeout_s": 3000, "exact_close": True}}


def cases(tier):
    out = []
    for kind in ("pol", "fock", "custom"):
        for lid, w, t, entries in cm.layouts_for_target(kind, tier, dF=2, dC=2):
            for entry in entries:
                for dest in (True, False):
                    if dest and lid.startswith("C") and not lid.endswith("-M") and (kind != "custom" or entry == "composite"):
                        # destructive POVM inside a composite is followed by the projective ProductState.measure, whose
                        # Matrix branch takes |diag| of the state: for a vector-level block (expanded to |psi><psi| by the
                        # POVM) deciding the sign needs positive-semidefiniteness reasoning the solvers do not finish;
                        # outside the bound (the Matrix-level layouts cover that code with Hermitian contents)
                        continue
                    partials = (True, False) if entry == "state" and kind != "custom" and lid.startswith("S-") else (True,)
                    for partial in partials:
                        out.append({"id": f"{kind}/{lid}/{entry}/dest{int(dest)}" + ("" if partial else "-full"), "kind": kind,
                                    "world": w, "targets": [t], "entry": entry, "dest": dest, "partial": partial})
    S = cm.subs(2, 1, 2, 2)
    comp = [["e0", "e1", "c0"]]
    two = []
    for order in ("FP", "PF"):
        for lvl in ("V", "M"):
            two.append((f"E1-{order}-{lvl}", cm.world(cm.subs(1, 0, 2), [{"kind": "env", "env": "e0", "order": order, "level": lvl}]),
                        "envelope", [("f0", "p0"), ("p0", "f0")]))
    two.append(("E0-VV", cm.world(cm.subs(1, 0, 2), [{"kind": "own", "sub": "f0", "level": "V"},
                                                    {"kind": "own", "sub": "p0", "level": "V"}]), "envelope",
                [("f0", "p0"), ("p0", "f0")]))
    two.append(("C-own", cm.world(S, [{"kind": "own", "sub": "p0", "level": "V"}, {"kind": "own", "sub": "p1", "level": "V"},
                                      {"kind": "own", "sub": "c0", "level": "V"}], comp), "composite",
                [("p0", "p1"), ("c0", "p1")]))
    two.append(("C-ps[p1,c0,p0]-V", cm.world(S, [{"kind": "ps", "ce": 0, "members": ["p1", "c0", "p0"], "level": "V"}], comp),
                "composite", [("p0", "p1"), ("p1", "p0"), ("c0", "p0")]))
    two.append(("C-ps[p0,c0]+ps[f1,p1]-V", cm.world(S, [{"kind": "ps", "ce": 0, "members": ["p0", "c0"], "level": "V"},
                                                        {"kind": "ps", "ce": 0, "members": ["f1", "p1"], "level": "V"}], comp),
                "composite", [("p0", "p1"), ("p1", "c0")]))
    two.append(("C-ps[c0,p1,p0]-M", cm.world(S, [{"kind": "ps", "ce": 0, "members": ["c0", "p1", "p0"], "level": "M"}], comp),
                "composite", [("p0", "p1"), ("p1", "c0")]))
    for lid, w, entry, pairs in two:
        for pr in pairs:
            for dest in (True, False):
                if dest and lid.startswith("C-") and not lid.endswith("-M"):
                    continue  # see above
                if dest and lid.startswith("C-") and tier == "quick":
                    continue  # two-target destructive POVM on a Matrix-level product space: thorough tier only (minutes)
                out.append({"id": f"two/{lid}/{entry}/{','.join(pr)}/dest{int(dest)}", "kind": "two", "world": w,
                            "targets": list(pr), "entry": entry, "dest": dest, "partial": True})
    return out


def _u0(B):
    h = B.sqrt_int(2) * 0.5
    i = cm.I1(B)
    return cm.mat(B, [[h, h], [i * h, i * h * (-1)]])  # S.H


def _embed(B, U, d):
    """2x2 unitary acting on the first two levels of a d-level system, identity above"""
    out = cm.identity(B, d)
    out[:2, :2] = U
    return out


def make_povm(B, dims):
    """complete non-projective set {M_0, M_1} on the product space of `dims`; returns (api operators, reference operators)"""
    D = 1
    for d in dims:
        D *= d
    a, b = B.angle("a", 1), B.angle("b", 1)
    ca, sa = B.cos_sin(a)
    cb, sb = B.cos_sin(b)
    like = B.like()
    d0 = ref.zeros((D, D), like)
    d1 = ref.zeros((D, D), like)
    for j in range(D):
        d0[j, j] = ca if j % 3 != 1 else cb
        d1[j, j] = sa if j % 3 != 1 else sb
    # M_i = V_i D_i W with unitaries V_i, W: the effects M_i^+ M_i = W^+ D_i^2 W are non-diagonal and complex,
    # and sum_i M_i^+ M_i = W^+ (D_0^2 + D_1^2) W = 1 for all angles
    if len(dims) == 1:
        V0 = _embed(B, _u0(B), D)
        V1 = _embed(B, cm.pol_gate(B, "H"), D)
        Wm = _embed(B, ref.matmul(cm.pol_gate(B, "H"), cm.pol_gate(B, "S")), D)  # W^+ D W has imaginary off-diagonals
    else:
        A0 = _embed(B, _u0(B), dims[0])
        A1 = _embed(B, cm.pol_gate(B, "H"), dims[1])
        V0 = ref.kron(A0, A1)
        # a controlled flip of the second factor makes the set asymmetric under exchanging the targets
        P = ref.zeros((D, D), like)
        n1 = dims[1]
        for i in range(D):
            q0, q1 = divmod(i, n1)
            j = q0 * n1 + ((1 - q1) if (q0 == 1 and q1 < 2) else q1)
            P[j, i] = ref.const(1, like)
        V0 = ref.matmul(V0, P)
        V1 = ref.kron(_embed(B, cm.pol_gate(B, "H"), dims[0]), _embed(B, _u0(B), dims[1]))
        Wm = ref.matmul(ref.kron(_embed(B, ref.matmul(cm.pol_gate(B, "H"), cm.pol_gate(B, "S")), dims[0]),
                                 _embed(B, cm.pol_gate(B, "H"), dims[1])), P)
    M0, M1 = ref.matmul(V0, ref.matmul(d0, Wm)), ref.matmul(V1, ref.matmul(d1, Wm))
    api = [B.const_array(M) if B.mode == "real" else B.jnp.ndarray(M) for M in (M0, M1)]
    return api, [M0, M1]


def scenario(B, case):
    from symx.explore import Cut
    from symx.world import World

    W = World(B, case["world"])
    h = W.h
    ts = [W.sub(n) for n in case["targets"]]
    dims = [int(t.dimensions) for t in ts]
    api, Ms = make_povm(B, dims)
    pre = W.snapshot()
    names = lambda objs: [W.name_of(o) for o in objs]
    if case["entry"] == "state":
        res = ts[0].measure_POVM(api, destructive=case["dest"], partial=case["partial"])
    elif case["entry"] == "envelope":
        res = ts[0].envelope.measure_POVM(api, *ts, destructive=case["dest"])
    else:
        res = W.ces[0].measure_POVM(api, *ts, destructive=case["dest"])
    draws = B.get_draws()
    post = W.snapshot()
    B.require_structural(isinstance(res, tuple) and len(res) == 2, "C09: measure_POVM returns (outcome, other outcomes)")
    k_ret, others = int(res[0]), dict(res[1])
    B.require_structural(len(draws) >= 1, "C09: no random draw was made")
    if not draws:
        return
    d0 = draws[0]
    B.require_structural(len(d0["p"]) == len(Ms) and k_ret == d0["k"],
                         f"C09: returned outcome {k_ret} is not the index drawn ({d0['k']}) / {len(d0['p'])} probabilities")

    # ---- reference ------------------------------------------------------------------------------------------------
    comps = checks.components(pre, pre, force_together=ts + [o for o in others.keys()])
    comp = [c for c in comps if any(x is ts[0] for x in c)][0]
    rho, cd = pre.joint(comp)
    pos = [[id(x) for x in comp].index(id(t)) for t in ts]
    Es = [ref.apply_op(rho, cd, pos, M) for M in Ms]
    refp = [ref.trace(E) for E in Es]
    tot_ref = refp[0] + refp[1]
    tot_p = d0["p"][0] + d0["p"][1]
    # (p_i >= 0 is implied for every valid state by the two identities below: p_i = Tr(M_i rho M_i^+) / sum_j Tr(M_j rho M_j^+))
    if hasattr(B, "observed"):
        import numpy as np

        arr = np.empty((2,), dtype=object)
        arr[0], arr[1] = d0["p"][0], d0["p"][1]
        B.observed["p"] = arr
    B.require_zero([d0["p"][i] * tot_ref - refp[i] * tot_p for i in range(len(Ms))],
                   "C09: outcome probabilities are proportional to Tr(M_i rho M_i^+)", "povm-probabilities")
    B.require_zero([tot_p - ref.const(1, B.like())], "C09: outcome probabilities sum to one", "povm-probabilities")

    # ---- fate of the targets ------------------------------------------------------------------------------------------
    live_post = {id(x) for x in post.live()}
    for t in ts:
        gone = case["dest"] and not isinstance(t, h.CustomState)
        if gone:
            B.require_structural(bool(t.measured) and t.state is None and t.index is None and id(t) not in live_post,
                                 f"C09: destructively measured target {W.name_of(t)} is not destroyed "
                                 f"(measured={t.measured}, index={t.index!r})")
        else:
            B.require_structural(id(t) in live_post and not t.measured,
                                 f"C09: target {W.name_of(t)} was destroyed in "
                                 f"{'non-destructive mode' if not case['dest'] else 'a custom state'}")
    if not case["dest"]:
        for o in W.all_subs():
            B.require_structural(not getattr(o, "measured", False), f"C09: non-destructive mode destroyed {W.name_of(o)}")
    # Which further subsystems a POVM measures projectively is documented only for the state entry point (`partial`);
    # elsewhere the library measures the envelope partner of a destroyed target in some layouts and not in others, and
    # the property does not fix it.  Required here: only envelope partners of targets may be reported, never a target;
    # partial=True reports nothing; the numeric post-state below is conditioned on whatever is reported.
    partners = [mc.partner(W, t) for t in ts]
    ok_others = all(any(o is p for p in partners if p is not None) and not any(o is t for t in ts) for o in others)
    if case["entry"] == "state" and case["partial"] and pre.block_of(ts[0]).kind == "own":
        ok_others = ok_others and not others
    B.require_structural(ok_others, f"C09: follow-up outcomes reported for {names(list(others))} (targets {names(ts)})")

    # ---- post-state --------------------------------------------------------------------------------------------------------
    E, ed, ecomp = Es[k_ret], list(cd), list(comp)
    for t in ts:
        if case["dest"] and not isinstance(t, h.CustomState):
            p_ = [id(x) for x in ecomp].index(id(t))
            keep = [i for i in range(len(ecomp)) if i != p_]
            E, ed = ref.partial_trace(E, ed, keep)
            ecomp = [x for x in ecomp if x is not t]
    for o, val in others.items():
        if not any(o is x for x in ecomp):
            continue
        p_ = [id(x) for x in ecomp].index(id(o))
        if getattr(o, "measured", False):
            E, ed = ref.project(E, ed, p_, int(val))
            ecomp = [x for x in ecomp if x is not o]
        else:
            E = ref.project_keep(E, ed, p_, int(val))
    survivors = [x for x in ecomp if id(x) in live_post]
    B.require_structural(len(survivors) == len(ecomp), f"C09: {names([x for x in ecomp if id(x) not in live_post])} should survive")
    if survivors and len(survivors) == len(ecomp):
        rho1, d1 = post.joint(survivors)
        if hasattr(B, "observed"):
            B.observed["post:" + ",".join(names(survivors))] = rho1
        B.require_equal_normalised(rho1, E, f"C09: post-measurement state of {names(survivors)}", "povm-post-state")
    for c in comps:
        if c is comp:
            continue
        if all(id(x) in live_post for x in c):
            r0, _ = pre.joint(c)
            r1, _ = post.joint(c)
            B.require_zero([r1 - r0], f"C09: bystander component {names(c)} changed", "bystander")
        else:
            B.require_structural(False, f"C09: bystander component {names(c)} lost subsystems")
    checks.check_wf(B, W, post, "C09/wf", unit=True)
