"""SMT back end: formulas -> SMT-LIB2 text -> z3 (and cvc5 as a second opinion).

Formulas are built lazily and emitted as text (building z3 ASTs through the Python API was
measured ~15x slower than text + parse).
"""
from __future__ import annotations

import time
from fractions import Fraction

from . import core
from .core import Poly

STATS = {"queries": 0, "sat": 0, "unsat": 0, "unknown": 0, "solver_s": 0.0, "cvc5_queries": 0, "cvc5_s": 0.0,
         "cvc5_disagree": 0}


_Z3_INIT = False


def reset_stats():
    for k in STATS:
        STATS[k] = 0.0 if k.endswith("_s") else 0


def _num(c):
    if isinstance(c, int):
        return str(c) if c >= 0 else f"(- {-c})"
    c = Fraction(c)
    if c.denominator == 1:
        return _num(int(c))
    if c < 0:
        return f"(- (/ {-c.numerator} {c.denominator}))"
    return f"(/ {c.numerator} {c.denominator})"


def poly_smt(p: Poly) -> str:
    if not p.t:
        return "0"
    terms = []
    for m, c in p.t.items():
        fs = []
        for v, e in m:
            fs.extend([f"v{v}"] * e)
        if not fs:
            terms.append(_num(c))
        elif c == 1 and len(fs) == 1:
            terms.append(fs[0])
        elif c == 1:
            terms.append("(* " + " ".join(fs) + ")")
        else:
            terms.append("(* " + _num(c) + " " + " ".join(fs) + ")")
    if len(terms) == 1:
        return terms[0]
    return "(+ " + " ".join(terms) + ")"


def formula_smt(f) -> str:
    if f is True:
        return "true"
    if f is False:
        return "false"
    k = f[0]
    if k == "cmp":
        op, p = f[1], f[2]
        ps = poly_smt(p)
        if op == "!=":
            return f"(not (= {ps} 0))"
        return f"({op} {ps} 0)"
    if k == "not":
        return f"(not {formula_smt(f[1])})"
    if k in ("and", "or"):
        return f"({k} " + " ".join(formula_smt(g) for g in f[1]) + ")"
    raise ValueError(f)


def closure_vars(formulas):
    """variables of the formulas plus, transitively, those of the definitions of definitional variables"""
    ctx = core.CTX
    seen = set()
    work = set()
    for f in formulas:
        core.f_vars(f, work)
    defs = []
    while work:
        v = work.pop()
        if v in seen:
            continue
        seen.add(v)
        for d in ctx.defs.get(v, ()):
            if id(d) not in [id(x) for x in defs]:
                defs.append(d)
            new = core.f_vars(d) - seen
            work |= new
    return seen, defs


def build_query(formulas, extra_decl=""):
    vs, defs = closure_vars(formulas)
    lines = [f"(declare-const v{v} Real)" for v in sorted(vs)]
    if extra_decl:
        lines.append(extra_decl)
    for d in defs:
        lines.append(f"(assert {formula_smt(d)})")
    for f in formulas:
        if f is True:
            continue
        lines.append(f"(assert {formula_smt(f)})")
    return "\n".join(lines), vs


def _z3_value(val):
    import z3

    if z3.is_rational_value(val):
        return Fraction(val.numerator_as_long(), val.denominator_as_long())
    if z3.is_algebraic_value(val):
        a = val.approx(30)
        return Fraction(a.numerator_as_long(), a.denominator_as_long())
    try:
        return Fraction(str(val))
    except Exception:
        return None


def solve(formulas, timeout_ms=10000, want_model=True, seed=0, portfolio=True, count=True):
    """returns (verdict, model) ; verdict in 'sat' 'unsat' 'unknown' ; model: var id -> Fraction"""
    import z3

    formulas = [f for f in formulas if f is not True]
    if any(f is False for f in formulas):
        STATS["queries"] += 1
        STATS["unsat"] += 1
        return "unsat", None
    text, vs = build_query(formulas)
    global _Z3_INIT
    if not _Z3_INIT:
        z3.set_param("memory_max_size", 6000)  # MB; a runaway query answers unknown instead of eating the machine
        _Z3_INIT = True
    s = z3.Solver()
    s.set("timeout", int(timeout_ms))
    if seed:
        s.set("random_seed", int(seed) % (2**31))
    t0 = time.time()
    try:
        s.from_string(text)
        r = s.check()
    except z3.Z3Exception as e:  # parse errors are harness errors, not verdicts
        if "memory" in str(e).lower() or "canceled" in str(e).lower():
            r = "unknown"
        else:
            raise RuntimeError(f"z3 rejected query: {e}\n{text[:2000]}")
    dt = time.time() - t0
    STATS["solver_s"] += dt
    verdict = str(r)
    if not count:
        # auxiliary (restricted) query: only its time is accounted
        STATS["aux_queries"] = STATS.get("aux_queries", 0) + 1
        model = None
        if verdict == "sat" and want_model:
            m = s.model()
            byname = {d.name(): d for d in m.decls()}
            model = {}
            for v in vs:
                d = byname.get(f"v{v}")
                val = _z3_value(m[d]) if d is not None else None
                model[v] = val if val is not None else Fraction(0)
        return verdict, model
    STATS["queries"] += 1
    model = None
    import os as _os
    if _os.environ.get("SYMX_LOGQ") and (verdict == "unknown" or dt > 1.0):
        _os.makedirs(_os.environ["SYMX_LOGQ"], exist_ok=True)
        with open(_os.path.join(_os.environ["SYMX_LOGQ"], f"q{_os.getpid()}_{STATS['queries']}_{verdict}.smt2"), "w") as fh:
            fh.write(f"; {verdict} {dt:.2f}s timeout={timeout_ms}\n" + text + "\n(check-sat)\n")
    if verdict == "unknown" and portfolio:
        res = solve_cvc5(formulas, timeout_ms=max(int(timeout_ms), 4000), want_model=want_model)
        v2, m2 = res if isinstance(res, tuple) else (res, None)
        if v2 == "unsat" or (v2 == "sat" and (m2 is not None or not want_model)):
            STATS[v2] += 1
            STATS["by_cvc5"] = STATS.get("by_cvc5", 0) + 1
            return v2, m2
    STATS[verdict] += 1
    if verdict == "sat" and want_model:
        m = s.model()
        model = {}
        byname = {d.name(): d for d in m.decls()}
        for v in vs:
            d = byname.get(f"v{v}")
            if d is None:
                model[v] = Fraction(0)
            else:
                val = _z3_value(m[d])
                model[v] = val if val is not None else Fraction(0)
    return verdict, model


def _parse_cvc5_value(tok):
    """parse an SMT-LIB real literal such as 3, 1.5, (- 2), (/ 1 3), (- (/ 1 3)); None if not rational"""
    tok = tok.strip()
    try:
        if tok.startswith("("):
            inner = tok[1:-1].strip()
            if inner.startswith("-"):
                v = _parse_cvc5_value(inner[1:])
                return None if v is None else -v
            if inner.startswith("/"):
                parts = _split_top(inner[1:])
                a, b = _parse_cvc5_value(parts[0]), _parse_cvc5_value(parts[1])
                return None if a is None or b is None else a / b
            return None
        return Fraction(tok)
    except Exception:
        return None


def _split_top(s):
    out, depth, cur = [], 0, ""
    for ch in s.strip():
        if ch == "(":
            depth += 1
        if ch == ")":
            depth -= 1
        if ch.isspace() and depth == 0:
            if cur:
                out.append(cur)
                cur = ""
        else:
            cur += ch
    if cur:
        out.append(cur)
    return out


def solve_cvc5(formulas, timeout_ms=20000, want_model=False):
    """second solver: cvc5 (python wheel) in a child process with a hard timeout (its own time limit is not
    reliable on nonlinear queries); returns verdict or (verdict, model) if want_model"""
    import json
    import os
    import subprocess
    import sys
    import tempfile

    def ret(v, m=None):
        return (v, m) if want_model else v

    formulas = [f for f in formulas if f is not True]
    if any(f is False for f in formulas):
        return ret("unsat")
    text, vs = build_query(formulas)
    text = "(set-logic QF_NRA)\n(set-option :produce-models true)\n" + text + "\n(check-sat)\n"
    t0 = time.time()
    verdict, model = "unknown", None
    fd, path = tempfile.mkstemp(suffix=".smt2", prefix="symx_")
    try:
        with os.fdopen(fd, "w") as fh:
            fh.write(text)
        worker = os.path.join(os.path.dirname(os.path.abspath(__file__)), "cvc5_worker.py")
        try:
            p = subprocess.run([sys.executable, worker, path, str(int(timeout_ms)), "1" if want_model else "0",
                                ",".join(str(v) for v in sorted(vs))],
                               capture_output=True, text=True, timeout=timeout_ms / 1000.0 + 3)
            for line in p.stdout.splitlines():
                if line.startswith("RESULT "):
                    d = json.loads(line[7:])
                    verdict = d["verdict"]
                    if d.get("model") is not None:
                        model = {int(k): Fraction(v) for k, v in d["model"].items()}
        except subprocess.TimeoutExpired:
            verdict = "unknown"
    finally:
        try:
            os.unlink(path)
        except OSError:
            pass
    STATS["cvc5_queries"] += 1
    STATS["cvc5_s"] += time.time() - t0
    if verdict == "unavailable":
        return ret("unavailable")
    return ret(verdict, model)


def concretise_and_solve(formulas, free_vars, rng, tries=6, timeout_ms=3000, keep=3):
    """SAT-side fallback for 'unknown': fix most free variables to small random rationals and retry.
    A model found this way is a model; unsat under a partial assignment proves nothing."""
    free_vars = sorted(free_vars)
    for _ in range(tries):
        fixed = list(free_vars)
        rng.shuffle(fixed)
        fixed = fixed[keep:]
        extra = []
        for v in fixed:
            val = Fraction(rng.randint(-4, 4), rng.choice([1, 2, 3, 4, 5]))
            extra.append(("cmp", "=", Poly.var(v) - Poly.const(val)))
        verdict, model = solve(list(formulas) + extra, timeout_ms=timeout_ms)
        if verdict == "sat":
            return verdict, model
    return "unknown", None
