"""Model of jax.random: keys are terms of a free algebra (Seed(n) | split(k, i)); `choice` is a
nondeterministic stub that forks over every outcome admitted by the sampling contract (p_k > 0)
and logs (call site, key term, p, outcome) for the harness."""
import sys

from symx import core, explore
from symx.core import SC, f_cmp

from .numpy import asarray, ndarray, _wrap0


class Key:
    __slots__ = ("term",)

    def __init__(self, term):
        self.term = term

    def __repr__(self):
        return f"Key{self.term}"

    def __eq__(self, o):
        return isinstance(o, Key) and self.term == o.term

    def __hash__(self):
        return hash(self.term)


def PRNGKey(seed):
    return Key(("seed", seed if isinstance(seed, (int, str)) else repr(seed)))


key = PRNGKey


def split(key, num=2):
    if not isinstance(key, Key):
        raise TypeError("split expects a PRNG key")
    return tuple(Key(("split", key.term, i)) for i in range(num))


def _site():
    f = sys._getframe(2)
    while f is not None:
        fn = f.f_code.co_filename
        if "photon_weave" in fn:
            return f"{fn.split('photon_weave/')[-1]}:{f.f_lineno}:{f.f_code.co_name}"
        f = f.f_back
    return "?"


def choice(key, a, shape=(), replace=True, p=None, axis=0):
    if not isinstance(key, Key):
        raise TypeError("choice expects a PRNG key as first argument")
    a = asarray(a)
    if a._v.ndim == 0:
        vals = list(range(int(a._v.item())))
    else:
        vals = [int(x) for x in a._v.flatten()]
    EXP = explore.EXP
    if p is None:
        pl = [SC.lift(1) for _ in vals]
    else:
        pl = list(asarray(p)._v.flatten())
    if len(pl) != len(vals):
        raise ValueError("choice: a and p must have the same size")
    tw = getattr(EXP, "twin", None)
    if tw is not None and str(key.term) in tw:
        # twin run: replay the outcome drawn with this key in the first run; no fork, no constraint
        k = tw[str(key.term)]
        EXP.draws.append({"site": _site(), "key": key.term, "p": pl, "k": k, "vals": vals, "pc_len": len(EXP.pc), "twin": True})
        return ndarray(_wrap0(SC.lift(vals[min(k, len(vals) - 1)])))
    k = EXP.choose(len(vals))
    rec = {"site": _site(), "key": key.term, "p": pl, "k": k, "vals": vals, "pc_len": len(EXP.pc)}
    EXP.draws.append(rec)
    EXP.choices.append(k)
    pk = pl[k]
    if isinstance(pk, SC):
        cond = pk > 0
    else:
        cond = bool(pk)
    if cond is False:
        raise explore.PathAbort("zero-probability outcome")
    if cond is not True:
        EXP.assume(cond.f)
    return ndarray(_wrap0(SC.lift(vals[k])))
