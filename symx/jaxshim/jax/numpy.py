"""Model of jax.numpy over numpy object arrays of symbolic complex scalars (symx.core.SC).

Only what photon_weave uses is implemented; anything else raises Unsupported (reported as
inconclusive, never as a verdict).  Shapes, dtypes of indices, reshape/transpose semantics are
numpy's own (the payload is a numpy object array).
"""
import builtins
import itertools
import math
from fractions import Fraction

import numpy as _np

from symx import core, explore
from symx.core import ONE, ZERO, SC, Poly, SymBool, f_and, f_cmp, f_not, f_or, mk_bool
from symx.explore import Cut, Unsupported

pi = _np.pi
e = _np.e
newaxis = None
inf = _np.inf
complex128 = _np.complex128
complex64 = _np.complex64
float64 = _np.float64
float32 = _np.float32
int64 = _np.int64
int32 = _np.int32
bool_ = _np.bool_

_SC0 = SC(ZERO)
_SC1 = SC(ONE)

# ---- element kinds (a coarse model of JAX dtypes) -----------------------------------------------------------
# 'b' < 'i' < 'f' < 'c'; None = not tracked (treated as complex: no narrowing cast is ever applied to it).  What the
# model is for: JAX silently DROPS the imaginary part when a complex value is written into / accumulated in / cast to a
# real array (x.at[i].set(z), einsum(..., preferred_element_type=float), astype(float)); the shim does the same.
_ORDER = {"b": 0, "i": 1, "f": 2, "c": 3}


def _kind_from_dtype(dt):
    if dt is None:
        return None
    try:
        k = _np.dtype(dt).kind
    except TypeError:
        return None
    return {"b": "b", "i": "i", "u": "i", "f": "f", "c": "c"}.get(k)


def _kind_of(x):
    if isinstance(x, ndarray):
        return x._dt
    if isinstance(x, (bool, _np.bool_, SymBool)):
        return "b"
    if isinstance(x, (int, _np.integer)):
        return "i"
    if isinstance(x, (float, _np.floating)):
        return "f"
    if isinstance(x, (complex, _np.complexfloating)):
        return "c"
    if isinstance(x, SC):
        return "c" if x.im.t else "f"
    if isinstance(x, (list, tuple)):
        if not x:
            return "f"
        return _prom(*[_kind_of(el) for el in x])
    if isinstance(x, _np.ndarray):
        if x.dtype == object:
            return _prom(*[_kind_of(el) for el in x.flatten()]) if x.size else "f"
        return _kind_from_dtype(x.dtype)
    return None


def _prom(*ks):
    best = None
    for k in ks:
        if k is None:
            return None
        if best is None or _ORDER[k] > _ORDER[best]:
            best = k
    return best


def _floatish(k):
    return "f" if k in ("b", "i") else k


def _narrow(v, k):
    """object array v cast to kind k: complex -> real drops the imaginary part (as JAX does, with a warning only)"""
    if k in ("f", "i", "b") and isinstance(v, _np.ndarray):
        out = _np.empty(v.shape, dtype=object)
        for idx in _np.ndindex(v.shape):
            x = v[idx]
            out[idx] = x.real if isinstance(x, SC) and x.im.t else x
        return out
    return v


def _lift(x):
    if isinstance(x, (SC, SymBool)):
        return x
    if isinstance(x, (bool, _np.bool_)):
        return bool(x)
    return SC.lift(x)


def _obj(x):
    """anything array-like -> numpy object array whose elements are SC (or bool / SymBool)"""
    if isinstance(x, ndarray):
        return x._v
    if isinstance(x, (SC, SymBool)):
        a = _np.empty((), dtype=object)
        a[()] = x
        return a
    if isinstance(x, (list, tuple)):
        parts = [_obj(el) for el in x]
        if not parts:
            return _np.empty((0,), dtype=object)
        return _np.stack(parts)
    if isinstance(x, _np.ndarray):
        if x.dtype == object:
            out = _np.empty(x.shape, dtype=object)
            for idx in _np.ndindex(x.shape):
                out[idx] = _lift(x[idx])
            return out
        out = _np.empty(x.shape, dtype=object)
        for idx in _np.ndindex(x.shape):
            out[idx] = _lift(x[idx].item())
        return out
    if hasattr(x, "__jax_array__") or type(x).__module__.startswith("jaxlib"):
        return _obj(_np.asarray(x))
    a = _np.empty((), dtype=object)
    a[()] = _lift(x)
    return a


def _wrap0(x):
    a = _np.empty((), dtype=object)
    a[()] = x
    return a


def _asobj(x):
    if isinstance(x, _np.ndarray):
        return x if x.dtype == object else x.astype(object)
    return _wrap0(x)


def _fix_index(i):
    if isinstance(i, ndarray):
        if i._v.ndim == 0:
            return int(i)
        return _np.array([int(x) for x in i._v.flatten()], dtype=int).reshape(i.shape)
    if isinstance(i, SC):
        return int(i)
    if isinstance(i, LazyIdx):
        return _fix_index(i._materialise())
    return i


class _AtIndexer:
    def __init__(self, arr):
        self.arr = arr

    def __getitem__(self, idx):
        return _AtSetter(self.arr, idx)


class _AtSetter:
    def __init__(self, arr, idx):
        self.arr = arr
        self.idx = idx

    def set(self, val):
        v = self.arr._v.copy()
        idx = self.idx
        idx = tuple(_fix_index(i) for i in idx) if isinstance(idx, tuple) else _fix_index(idx)
        k = self.arr._dt  # the result keeps the dtype of the array written to: complex values lose their imaginary part
        if isinstance(val, ndarray):
            v[idx] = _narrow(val._v, k)
        elif isinstance(val, _np.ndarray):
            v[idx] = _narrow(_obj(val), k)
        else:
            x = _lift(val)
            if k in ("f", "i", "b") and isinstance(x, SC) and x.im.t:
                x = x.real
            tgt = v[idx]
            if isinstance(tgt, _np.ndarray):
                tgt.fill(x)
            else:
                v[idx] = x
        return ndarray(v, k)

    def add(self, val):
        cur = self.arr[self.idx]
        return self.set(cur + val)


class ndarray:
    __array_priority__ = 2000
    __slots__ = ("_v", "_dt")

    def __init__(self, v, dt=None):
        if isinstance(v, ndarray):
            if dt is None:
                dt = v._dt
            v = v._v
        if not (isinstance(v, _np.ndarray) and v.dtype == object):
            v = _obj(v)
        self._v = v
        self._dt = dt

    # ---- structure
    @property
    def shape(self):
        return self._v.shape

    @property
    def ndim(self):
        return self._v.ndim

    @property
    def size(self):
        return self._v.size

    @property
    def dtype(self):
        return _np.dtype({"b": "bool", "i": "int64", "f": "float64"}.get(self._dt, "complex128"))

    @property
    def T(self):
        return ndarray(self._v.T, self._dt)

    @property
    def at(self):
        return _AtIndexer(self)

    def __len__(self):
        return len(self._v)

    def __iter__(self):
        if self._v.ndim == 0:
            raise TypeError("iteration over a 0-d array")
        for i in range(len(self._v)):
            yield self[i]

    def reshape(self, *shape, **kw):
        if len(shape) == 1 and not isinstance(shape[0], (int, _np.integer, SC)):
            shape = shape[0]
        if hasattr(shape, "__next__"):
            shape = tuple(shape)
        if isinstance(shape, ndarray):
            shape = (int(shape),) if shape._v.ndim == 0 else tuple(int(x) for x in shape._v)
        if isinstance(shape, (int, _np.integer, SC)):
            shape = (shape,)
        shape = tuple(int(s) for s in shape)
        return ndarray(self._v.reshape(shape), self._dt)

    def transpose(self, *axes):
        if len(axes) == 1 and (isinstance(axes[0], (list, tuple)) or axes[0] is None):
            axes = axes[0]
        if not axes:
            return ndarray(self._v.T, self._dt)
        return ndarray(self._v.transpose(tuple(int(a) for a in axes)), self._dt)

    def flatten(self):
        return ndarray(self._v.flatten(), self._dt)

    def ravel(self):
        return ndarray(self._v.ravel().copy(), self._dt)

    def item(self, *a):
        if a:
            return self._v.item(*a)
        return self._v.item()

    def copy(self):
        return ndarray(self._v.copy(), self._dt)

    def astype(self, dt):
        k = _kind_from_dtype(dt)
        if k is None:
            return ndarray(self._v, None)
        return ndarray(_narrow(self._v, k), k)

    def tolist(self):
        return self._v.tolist()

    def squeeze(self, axis=None):
        return ndarray(self._v.squeeze(axis), self._dt)

    def __getitem__(self, idx):
        idx = tuple(_fix_index(i) for i in idx) if isinstance(idx, tuple) else _fix_index(idx)
        r = self._v[idx]
        if isinstance(r, _np.ndarray):
            return ndarray(r, self._dt)
        return ndarray(_wrap0(r), self._dt)

    def __setitem__(self, idx, val):
        raise TypeError("JAX arrays are immutable; use .at[].set()")

    # ---- scalar conversions
    def _scalar(self):
        if self._v.size != 1:
            raise TypeError("only size-1 arrays can be converted to Python scalars")
        return self._v.reshape(()).item()

    def __int__(self):
        return int(self._scalar())

    def __index__(self):
        x = self._scalar()
        return x.__index__() if isinstance(x, SC) else int(x)

    def __float__(self):
        return float(self._scalar())

    def __complex__(self):
        return complex(self._scalar())

    def __bool__(self):
        x = self._scalar()
        if isinstance(x, (bool, SymBool)):
            return bool(x)
        return bool(x != 0)

    def __hash__(self):
        raise TypeError("unhashable type: jax array")

    # ---- arithmetic
    def _bin(self, o, f, div=False):
        if isinstance(o, (str, bytes, dict)) or o is None:
            return NotImplemented
        k = _prom(self._dt, _kind_of(o))
        return ndarray(_asobj(f(self._v, _obj(o))), _floatish(k) if div else k)

    def __add__(self, o):
        return self._bin(o, lambda a, b: a + b)

    __radd__ = __add__

    def __sub__(self, o):
        return self._bin(o, lambda a, b: a - b)

    def __rsub__(self, o):
        return self._bin(o, lambda a, b: b - a)

    def __mul__(self, o):
        return self._bin(o, lambda a, b: a * b)

    __rmul__ = __mul__

    def __truediv__(self, o):
        return self._bin(o, lambda a, b: a / b, div=True)

    def __rtruediv__(self, o):
        return self._bin(o, lambda a, b: b / a, div=True)

    def __neg__(self):
        return ndarray(_asobj(-self._v), self._dt)

    def __pos__(self):
        return self

    def __pow__(self, n):
        if isinstance(n, ndarray):
            n = n._scalar()
        return ndarray(_asobj(_np.frompyfunc(lambda a: a ** n, 1, 1)(self._v)))

    def __matmul__(self, o):
        return matmul(self, o)

    def __rmatmul__(self, o):
        return matmul(o, self)

    def __abs__(self):
        return abs_(self)

    def _cmp(self, o, op):
        if isinstance(o, (str, bytes)) or o is None:
            return False if op == "==" else True
        ov = _obj(o)

        def f(a, b):
            if isinstance(a, (bool, SymBool)) or isinstance(b, (bool, SymBool)):
                raise Unsupported("comparison of boolean arrays")
            return a._cmp(b, op)

        return ndarray(_asobj(_np.frompyfunc(f, 2, 1)(self._v, ov)))

    def __eq__(self, o):
        return self._cmp(o, "==")

    def __ne__(self, o):
        return self._cmp(o, "!=")

    def __lt__(self, o):
        return self._cmp(o, "<")

    def __le__(self, o):
        return self._cmp(o, "<=")

    def __gt__(self, o):
        return self._cmp(o, ">")

    def __ge__(self, o):
        return self._cmp(o, ">=")

    def __invert__(self):
        return ndarray(_asobj(_np.frompyfunc(lambda a: (not a) if isinstance(a, bool) else ~a, 1, 1)(self._v)))

    def __and__(self, o):
        return ndarray(_asobj(_np.frompyfunc(_band, 2, 1)(self._v, _obj(o))))

    def __or__(self, o):
        return ndarray(_asobj(_np.frompyfunc(_bor, 2, 1)(self._v, _obj(o))))

    def conj(self):
        return conj(self)

    conjugate = conj

    @property
    def real(self):
        return ndarray(_asobj(_np.frompyfunc(lambda a: a.real, 1, 1)(self._v)), "f" if self._dt in (None, "c") else self._dt)

    @property
    def imag(self):
        return ndarray(_asobj(_np.frompyfunc(lambda a: a.imag, 1, 1)(self._v)), "f" if self._dt in (None, "c") else self._dt)

    def sum(self, axis=None):
        return sum(self, axis)

    def trace(self):
        return trace(self)

    def dot(self, o):
        return dot(self, o)

    def __repr__(self):
        return f"SymArray{self.shape}"

    # numpy interop: np.conj(x), np_array @ x, np_array * x ...
    def __array_ufunc__(self, ufunc, method, *inputs, **kw):
        if method != "__call__":
            return NotImplemented
        name = ufunc.__name__
        table = {
            "conjugate": lambda a: conj(a),
            "add": lambda a, b: asarray(a) + b,
            "subtract": lambda a, b: asarray(a) - b,
            "multiply": lambda a, b: asarray(a) * b,
            "true_divide": lambda a, b: asarray(a) / b,
            "divide": lambda a, b: asarray(a) / b,
            "matmul": lambda a, b: matmul(a, b),
            "negative": lambda a: -asarray(a),
            "absolute": lambda a: abs_(a),
            "sqrt": lambda a: sqrt(a),
            "exp": lambda a: exp(a),
            "equal": lambda a, b: asarray(a) == b,
            "not_equal": lambda a, b: asarray(a) != b,
        }
        if name in table:
            return table[name](*inputs)
        raise Unsupported(f"numpy ufunc {name} on a symbolic array")

    def __array_function__(self, func, types, args, kwargs):
        name = func.__name__
        g = globals().get(name)
        if g is None or not callable(g):
            raise Unsupported(f"numpy function {name} on a symbolic array")
        return g(*args, **kwargs)


Array = ndarray


def _band(a, b):
    if isinstance(a, bool) and isinstance(b, bool):
        return a and b
    return mk_bool(f_and(core.lift_bool(a), core.lift_bool(b)))


def _bor(a, b):
    if isinstance(a, bool) and isinstance(b, bool):
        return a or b
    return mk_bool(f_or(core.lift_bool(a), core.lift_bool(b)))


# ---- construction -----------------------------------------------------------


def _with_dtype(a, dtype):
    if dtype is None:
        return a
    return a.astype(dtype)


def asarray(x, dtype=None):
    return _with_dtype(x if isinstance(x, ndarray) else ndarray(_obj(x), _kind_of(x)), dtype)


def array(x, dtype=None, copy=True):
    return _with_dtype(ndarray(_obj(x).copy(), _kind_of(x)), dtype)


def zeros(shape, dtype=None):
    if isinstance(shape, (int, _np.integer, SC, ndarray)):
        shape = (shape,)
    out = _np.empty(tuple(int(s) for s in shape), dtype=object)
    out.fill(_SC0)
    return ndarray(out, "f" if dtype is None else _kind_from_dtype(dtype))


def ones(shape, dtype=None):
    z = zeros(shape, dtype)
    z._v.fill(_SC1)
    return z


def zeros_like(a, dtype=None):
    a = asarray(a)
    z = zeros(a.shape)
    z._dt = a._dt if dtype is None else _kind_from_dtype(dtype)
    return z


def promote_types(a, b):
    return _np.promote_types(a, b)


def result_type(*xs):
    k = _prom(*[_kind_of(x) if not isinstance(x, (type, _np.dtype)) else _kind_from_dtype(x) for x in xs])
    return _np.dtype({"b": "bool", "i": "int64", "f": "float64"}.get(k, "complex128"))


def iscomplexobj(x):
    return _kind_of(x) in (None, "c")


def isrealobj(x):
    return not iscomplexobj(x)


float_ = _np.float64
complex_ = _np.complex128
int_ = _np.int64


def eye(N, M=None, dtype=None):
    N = int(N)
    M = N if M is None else int(M)
    out = zeros((N, M))._v
    for i in range(builtins.min(N, M)):
        out[i, i] = _SC1
    return ndarray(out, "f" if dtype is None else _kind_from_dtype(dtype))


def identity(n, dtype=None):
    return eye(n, dtype=dtype)


def arange(*a, dtype=None):
    a = [int(x) for x in a]
    vals = [SC.lift(i) for i in range(*a)]
    out = _np.empty((len(vals),), dtype=object)
    for i, x in enumerate(vals):
        out[i] = x
    return ndarray(out, "i" if dtype is None else _kind_from_dtype(dtype))


def reshape(a, shape):
    return asarray(a).reshape(shape)


def transpose(a, axes=None):
    return asarray(a).transpose(axes)


def ravel(a):
    return asarray(a).ravel()


# ---- elementwise ---------------------------------------------------------------


def _map(f, a, kind=None):
    """kind: None -> not tracked; "same" -> kind of the argument; "float" -> at least float; "real" -> complex becomes float"""
    k = None
    if kind is not None:
        k = _kind_of(a)
        if kind == "float":
            k = _floatish(k)
        elif kind == "real":
            k = "f" if k in (None, "c") else k
    return ndarray(_asobj(_np.frompyfunc(f, 1, 1)(_obj(a))), k)


def conj(a):
    return _map(lambda x: x.conj(), a, "same")


conjugate = conj


def abs_(a):
    return _map(lambda x: builtins.abs(x), a, "real")


abs = abs_
absolute = abs_


def real(a):
    return asarray(a).real


def imag(a):
    return asarray(a).imag


def sqrt(a):
    return _map(core.sc_sqrt, a, "float")


def square(a):
    return _map(lambda x: x * x, a, "same")


def add(a, b):
    return asarray(a) + b


def subtract(a, b):
    return asarray(a) - b


def multiply(a, b):
    return asarray(a) * b


def divide(a, b):
    return asarray(a) / b


true_divide = divide


def power(a, n):
    return asarray(a) ** n


def _exp_scalar(x: SC) -> SC:
    if x.is_zero():
        return _SC1
    if x.re.t:
        if x.is_const():
            z = complex(x)
            return SC.lift(complex(math.e ** z.real * math.cos(z.imag), math.e ** z.real * math.sin(z.imag)))
        raise Unsupported("exp with symbolic real part")
    c, s = core.cos_sin(x.im)
    return SC(c, s)


def exp(a):
    return _map(_exp_scalar, a)


def _real_arg(x: SC) -> Poly:
    if x.im.t:
        raise Unsupported("trig of complex argument")
    return x.re


def cos(a):
    return _map(lambda x: SC(core.cos_sin(_real_arg(x))[0]), a)


def sin(a):
    return _map(lambda x: SC(core.cos_sin(_real_arg(x))[1]), a)


def _const_only(fn, name):
    def g(a):
        def f(x):
            if x.is_const() and x.is_real():
                return SC.lift(fn(float(x.re.cval())))
            raise Unsupported(f"{name} of symbolic value")

        return _map(f, a)

    return g


sinh = _const_only(math.sinh, "sinh")
cosh = _const_only(math.cosh, "cosh")
tanh = _const_only(math.tanh, "tanh")
log = _const_only(math.log, "log")


def ceil(a):
    return _map(lambda x: SC.lift(math.ceil(Fraction(_need_const_real(x, "ceil")))), a)


def floor(a):
    return _map(lambda x: SC.lift(math.floor(Fraction(_need_const_real(x, "floor")))), a)


def _need_const_real(x, what):
    if not (x.is_const() and x.is_real()):
        raise Unsupported(f"{what} of symbolic value")
    return x.re.cval()


def angle(a):
    def f(x):
        if x.is_const():
            return SC.lift(math.atan2(float(x.im.cval()), float(x.re.cval())))
        raise Unsupported("angle of symbolic value")

    return _map(f, a)


# ---- reductions ----------------------------------------------------------------


def moveaxis(a, source, destination):
    return ndarray(_np.moveaxis(_obj(a), source, destination), _kind_of(a))


def swapaxes(a, a1, a2):
    return ndarray(_np.swapaxes(_obj(a), a1, a2), _kind_of(a))


def sum(a, axis=None):
    v = _obj(a)
    if isinstance(axis, (tuple, list)):
        out = ndarray(v, _kind_of(a))
        for ax in sorted((int(x) % v.ndim for x in axis), reverse=True):
            out = sum(out, axis=ax)
        return out
    k = _kind_of(a)
    k = "i" if k == "b" else k
    if axis is None:
        acc = _SC0
        for x in v.flatten():
            acc = acc + x
        return ndarray(_wrap0(acc), k)
    if v.size == 0:
        return zeros(tuple(d for i, d in enumerate(v.shape) if i != axis % v.ndim))
    return ndarray(_asobj(_np.add.reduce(v, axis=int(axis))), k)


def prod(a, axis=None):
    acc = _SC1
    for x in _obj(a).flatten():
        acc = acc * x
    return ndarray(_wrap0(acc))


def trace(a):
    v = _obj(a)
    if v.ndim != 2:
        raise Unsupported("trace of non-matrix")
    acc = _SC0
    for i in range(builtins.min(v.shape)):
        acc = acc + v[i, i]
    return ndarray(_wrap0(acc), _kind_of(a))


def diag(a, k=0):
    v = _obj(a)
    k = int(k)
    if v.ndim == 1:
        n = len(v) + builtins.abs(k)
        out = zeros((n, n))._v
        for i, x in enumerate(v):
            if k >= 0:
                out[i, i + k] = x
            else:
                out[i - k, i] = x
        return ndarray(out, _kind_of(a))
    if v.ndim != 2:
        raise ValueError("diag requires 1-d or 2-d input")
    out = _np.empty((builtins.min(v.shape),), dtype=object)
    for i in range(builtins.min(v.shape)):
        out[i] = v[i, i]
    return ndarray(out, _kind_of(a))


# ---- linear algebra ------------------------------------------------------------


def matmul(a, b):
    A, B = _obj(a), _obj(b)
    if A.ndim == 0 or B.ndim == 0:
        raise ValueError("matmul: scalar operand")
    return ndarray(_asobj(_np.matmul(A, B)), _prom(_kind_of(a), _kind_of(b)))


def dot(a, b):
    A, B = _obj(a), _obj(b)
    return ndarray(_asobj(_np.dot(A, B)), _prom(_kind_of(a), _kind_of(b)))


def outer(a, b):
    A, B = _obj(a).flatten(), _obj(b).flatten()
    out = _np.empty((len(A), len(B)), dtype=object)
    for i, x in enumerate(A):
        for j, y in enumerate(B):
            out[i, j] = x * y
    return ndarray(out, _prom(_kind_of(a), _kind_of(b)))


def kron(a, b):
    A, B = _obj(a), _obj(b)
    nd = builtins.max(A.ndim, B.ndim, 1)
    A = A.reshape((1,) * (nd - A.ndim) + A.shape)
    B = B.reshape((1,) * (nd - B.ndim) + B.shape)
    if nd == 1:
        out = _np.empty((A.shape[0] * B.shape[0],), dtype=object)
        for i in range(A.shape[0]):
            for k in range(B.shape[0]):
                out[i * B.shape[0] + k] = A[i] * B[k]
        return ndarray(out, _prom(_kind_of(a), _kind_of(b)))
    if nd != 2:
        raise Unsupported("kron of >2-d arrays")
    out = _np.empty((A.shape[0] * B.shape[0], A.shape[1] * B.shape[1]), dtype=object)
    for i in range(A.shape[0]):
        for j in range(A.shape[1]):
            x = A[i, j]
            xz = x.is_zero()
            for k in range(B.shape[0]):
                for l in range(B.shape[1]):
                    out[i * B.shape[0] + k, j * B.shape[1] + l] = _SC0 if xz else x * B[k, l]
    return ndarray(out, _prom(_kind_of(a), _kind_of(b)))


def take(a, indices, axis=None):
    ind = _fix_index(indices) if not isinstance(indices, (int, _np.integer)) else int(indices)
    return ndarray(_asobj(_np.take(_obj(a), ind, axis=None if axis is None else int(axis))))


def pad(a, pad_width, mode="constant", constant_values=0):
    if mode != "constant":
        raise Unsupported("pad mode")
    v = _obj(a)
    pw = [(int(p[0]), int(p[1])) for p in pad_width]
    if len(pw) != v.ndim:
        raise ValueError("pad_width does not match array rank")
    new_shape = tuple(d + p[0] + p[1] for d, p in zip(v.shape, pw))
    out = _np.empty(new_shape, dtype=object)
    out.fill(_lift(constant_values))
    sl = tuple(slice(p[0], p[0] + d) for d, p in zip(v.shape, pw))
    out[sl] = v
    return ndarray(out, _kind_of(a))


def vstack(xs):
    return ndarray(_np.vstack([_np.atleast_2d(_obj(x)) for x in xs]), _prom(*[_kind_of(x) for x in xs]))


def hstack(xs):
    return ndarray(_np.hstack([_obj(x) for x in xs]), _prom(*[_kind_of(x) for x in xs]))


def concatenate(xs, axis=0):
    return ndarray(_np.concatenate([_obj(x) for x in xs], axis=axis), _prom(*[_kind_of(x) for x in xs]))


def stack(xs, axis=0):
    return ndarray(_np.stack([_obj(x) for x in xs], axis=axis), _prom(*[_kind_of(x) for x in xs]))


def einsum(spec, *ops, **kw):
    """index-join implementation (operands are tiny and mostly sparse); checks operand rank/extent
    consistency so that a malformed generated spec is an error instead of silence"""
    kind = _prom(*[_kind_of(o) for o in ops])
    for name in kw:
        if name not in ("preferred_element_type", "optimize", "precision"):
            raise Unsupported(f"einsum keyword {name}")
    pet = _kind_from_dtype(kw.get("preferred_element_type"))
    ops = [_obj(o) for o in ops]
    if pet in ("f", "i", "b"):
        # JAX converts the OPERANDS to the preferred element type (observed: complex operands lose their imaginary parts
        # before the contraction, not after it)
        ops = [_narrow(o, pet) for o in ops]
    spec = spec.replace(" ", "")
    if "->" not in spec:
        raise Unsupported("implicit-output einsum")
    ins, out = spec.split("->")
    ins = ins.split(",")
    if len(ins) != len(ops):
        raise ValueError(f"einsum: {len(ins)} subscripts for {len(ops)} operands ({spec})")
    dims = {}
    for s, o in zip(ins, ops):
        if len(s) != o.ndim:
            raise ValueError(f"einsum: subscript {s!r} does not match operand of shape {o.shape} ({spec})")
        for ch, d in zip(s, o.shape):
            if dims.setdefault(ch, d) != d:
                raise ValueError(f"einsum: size of label {ch!r} inconsistent ({spec}: {d} vs {dims[ch]})")
    for ch in out:
        if ch not in dims:
            raise ValueError(f"einsum: output label {ch!r} missing from inputs ({spec})")
    if len(set(out)) != len(out):
        raise ValueError(f"einsum: repeated output label ({spec})")
    # partial assignments: list of (tuple of values for `bound` letters, value)
    bound = []
    partial = [((), None)]
    for s, o in zip(ins, ops):
        letters = []
        for ch in s:
            if ch not in letters:
                letters.append(ch)
        shared = [ch for ch in letters if ch in bound]
        new = [ch for ch in letters if ch not in bound]
        pos_first = {ch: s.index(ch) for ch in letters}
        groups = {}
        for idx in _np.ndindex(o.shape):
            x = o[idx]
            if x.is_zero():
                continue
            ok = True
            for ch, i in zip(s, idx):
                if idx[pos_first[ch]] != i:
                    ok = False
                    break
            if not ok:
                continue
            key = tuple(idx[pos_first[ch]] for ch in shared)
            groups.setdefault(key, []).append((tuple(idx[pos_first[ch]] for ch in new), x))
        spos = [bound.index(ch) for ch in shared]
        nxt = []
        for env, val in partial:
            key = tuple(env[p] for p in spos)
            for newvals, x in groups.get(key, ()):
                nxt.append((env + newvals, x if val is None else val * x))
        partial = nxt
        bound = bound + new
    opos = [bound.index(ch) for ch in out]
    res = _np.empty(tuple(dims[ch] for ch in out), dtype=object)
    res.fill(None)
    accs = {}
    for env, val in partial:
        k = tuple(env[p] for p in opos)
        cur = accs.get(k)
        accs[k] = val if cur is None else cur + val
    for idx in _np.ndindex(res.shape):
        res[idx] = accs.get(idx, _SC0)
    if pet is not None:
        return ndarray(_narrow(res, pet), pet)
    return ndarray(res, kind)


# ---- booleans / branching ---------------------------------------------------------


def _tob(x):
    if isinstance(x, SC):
        return x != 0
    return x


def _any_list(xs):
    fs = []
    for x in xs:
        x = _tob(x)
        if x is True:
            return True
        if x is False:
            continue
        fs.append(x.f)
    if not fs:
        return False
    return mk_bool(f_or(*fs))


def _all_list(xs):
    fs = []
    for x in xs:
        x = _tob(x)
        if x is False:
            return False
        if x is True:
            continue
        fs.append(x.f)
    if not fs:
        return True
    return mk_bool(f_and(*fs))


def _reduce_bool(a, axis, fn):
    v = _obj(a)
    if axis is None:
        return ndarray(_wrap0(fn(list(v.flatten()))))
    v2 = _np.moveaxis(v, int(axis), -1)
    out = _np.empty(v2.shape[:-1], dtype=object)
    for idx in _np.ndindex(out.shape):
        out[idx] = fn(list(v2[idx]))
    return ndarray(out)


def any(a, axis=None):
    return _reduce_bool(a, axis, _any_list)


def all(a, axis=None):
    return _reduce_bool(a, axis, _all_list)


class LazyIdx:
    """the index array that jnp.where / jnp.nonzero return along one dimension; elements are decided
    (forked) only when they are looked at: `[-1]` scans from the end, everything else materialises."""

    def __init__(self, cond, dim):
        self.cond = cond  # numpy object array of bool / SymBool
        self.dim = dim
        self._mat = None

    def _materialise(self):
        if self._mat is None:
            res = []
            for idx in _np.ndindex(self.cond.shape):
                if bool(self.cond[idx]):
                    res.append(idx[self.dim])
            self._mat = res
        out = _np.empty((len(self._mat),), dtype=object)
        for i, x in enumerate(self._mat):
            out[i] = SC.lift(x)
        return ndarray(out)

    @property
    def size(self):
        return self._materialise().size

    @property
    def shape(self):
        return self._materialise().shape

    def __len__(self):
        return self.size

    def __iter__(self):
        return iter(self._materialise())

    def __getitem__(self, k):
        if isinstance(k, int) and k == -1 and self._mat is None:
            idxs = list(_np.ndindex(self.cond.shape))
            for idx in reversed(idxs):
                if bool(self.cond[idx]):
                    return ndarray(_wrap0(SC.lift(idx[self.dim])))
            raise IndexError("index -1 is out of bounds for axis 0 with size 0")
        return self._materialise()[k]


def where(cond, x=None, y=None):
    if x is not None or y is not None:
        c = _obj(cond)
        X, Y = _obj(x), _obj(y)
        c, X, Y = _np.broadcast_arrays(c, X, Y)
        out = _np.empty(c.shape, dtype=object)
        for idx in _np.ndindex(c.shape):
            out[idx] = X[idx] if bool(_tob(c[idx])) else Y[idx]
        return ndarray(out, _prom(_kind_of(x), _kind_of(y)))
    v = _obj(cond)
    b = _np.empty(v.shape, dtype=object)
    for idx in _np.ndindex(v.shape):
        b[idx] = _tob(v[idx])
    return tuple(LazyIdx(b, d) for d in range(builtins.max(v.ndim, 1)))


def nonzero(a):
    return where(asarray(a) != 0)


def flatnonzero(a):
    return where(asarray(a).ravel())[0]


def argmax(a, axis=None):
    v = _obj(a).flatten()
    if len(v) and isinstance(v[0], (bool, SymBool)):
        for i, x in enumerate(v):
            if bool(x):
                return ndarray(_wrap0(SC.lift(i)))
        return ndarray(_wrap0(SC.lift(0)))
    if builtins.all(x.is_const() and x.is_real() for x in v):
        vals = [x.re.cval() for x in v]
        return ndarray(_wrap0(SC.lift(vals.index(builtins.max(vals)))))
    # symbolic reals: first maximal element, decided by solver-forked comparisons
    best = 0
    for i in range(1, len(v)):
        if builtins.bool(v[i] > v[best]):
            best = i
    return ndarray(_wrap0(SC.lift(best)))


def _close(x, y, rtol, atol):
    """|x - y| <= atol + rtol*|y| over the reals, literal tolerances"""
    x, y = SC.lift(x), SC.lift(y)
    d = x - y
    if explore.EXP.exact_close and not (x.is_const() and y.is_const()):
        # "reals, not floats": closeness tests on SYMBOLIC values are read as exact equality (tolerance 0); two concrete
        # numbers are compared with the literal tolerances, as the library does
        return f_and(f_cmp(d.re, "=="), f_cmp(d.im, "=="))
    at, rt = Fraction(atol), Fraction(rtol)
    if y.is_const():
        ay = Fraction(math.sqrt(float(y.re.cval()) ** 2 + float(y.im.cval()) ** 2))
        ay2 = Fraction(y.re.cval()) ** 2 + Fraction(y.im.cval()) ** 2
        # exact |y| when it is rational, else the double
        r = Fraction(int(math.isqrt(ay2.numerator * ay2.denominator)), ay2.denominator) if ay2 >= 0 else ay
        if r * r == ay2:
            ay = r
        tol = at + rt * ay
        if not d.im.t:
            return f_and(f_cmp(d.re - Poly.const(tol), "<="), f_cmp(-d.re - Poly.const(tol), "<="))
        return f_cmp(d.abs2() - Poly.const(tol * tol), "<=")
    if rt == 0:
        return f_cmp(d.abs2() - Poly.const(at * at), "<=")
    s = core.sqrt_poly(y.abs2())  # |y|
    tolp = Poly.const(at) + s.scale(rt)
    return f_cmp(d.abs2() - tolp * tolp, "<=")


def isclose(a, b, rtol=1e-5, atol=1e-8, equal_nan=False):
    A, B = _np.broadcast_arrays(_obj(a), _obj(b))
    out = _np.empty(A.shape, dtype=object)
    for idx in _np.ndindex(A.shape):
        out[idx] = mk_bool(_close(A[idx], B[idx], rtol, atol))
    return ndarray(out)


def allclose(a, b, rtol=1e-5, atol=1e-8, equal_nan=False):
    return all(isclose(a, b, rtol, atol))


def array_equal(a, b):
    A, B = _obj(a), _obj(b)
    if A.shape != B.shape:
        return ndarray(_wrap0(False))
    return all(asarray(a) == b)


class _Linalg:
    @staticmethod
    def norm(a, ord=None, axis=None):
        if ord is not None or axis is not None:
            raise Unsupported("norm with ord/axis")
        comps = [x for x in _obj(a).flatten() if not x.is_zero()]
        if not comps:
            return ndarray(_wrap0(_SC0))
        return ndarray(_wrap0(core.SAbs(comps)))

    @staticmethod
    def eigh(a, *args, **kw):
        v = _obj(a)
        if builtins.all(x.is_const() for x in v.flatten()):
            # concrete input: numpy's eigh, entries enter as exact rationals of the doubles (inexact, see DESIGN 6.3)
            env = {i: float(core.CTX.rules[i].cval()) ** 0.5 for i in range(len(core.CTX.names)) if core.CTX.kind[i] == "alg"}
            A = _np.array([[x.eval(env) for x in row] for row in v], dtype=complex)
            w, U = _np.linalg.eigh(A)
            return array(w), array(U)
        raise Cut("eigh")

    @staticmethod
    def eig(a, *args, **kw):
        raise Cut("eig")

    @staticmethod
    def pinv(a, *args, **kw):
        raise Cut("pinv")

    @staticmethod
    def inv(a, *args, **kw):
        raise Cut("inv")


linalg = _Linalg()


# ---- further functions (ordering by solver-decided comparisons; anything not modelled is reported as Unsupported) ----


def _pick(xs, better):
    best = xs[0]
    for x in xs[1:]:
        if builtins.bool(better(x, best)):
            best = x
    return best


def _reduce_order(a, axis, better):
    v = _obj(a)
    if axis is None:
        flat = list(v.flatten())
        if not flat:
            raise ValueError("zero-size array to reduction operation")
        return ndarray(_wrap0(_pick(flat, better)))
    v2 = _np.moveaxis(v, int(axis), -1)
    out = _np.empty(v2.shape[:-1], dtype=object)
    for idx in _np.ndindex(out.shape):
        out[idx] = _pick(list(v2[idx]), better)
    return ndarray(out)


def max(a, axis=None):
    return _reduce_order(a, axis, lambda x, b: x > b)


def min(a, axis=None):
    return _reduce_order(a, axis, lambda x, b: x < b)


amax = max
amin = min


def maximum(a, b):
    A, Bv = _np.broadcast_arrays(_obj(a), _obj(b))
    out = _np.empty(A.shape, dtype=object)
    for idx in _np.ndindex(A.shape):
        out[idx] = A[idx] if builtins.bool(A[idx] >= Bv[idx]) else Bv[idx]
    return ndarray(out)


def minimum(a, b):
    A, Bv = _np.broadcast_arrays(_obj(a), _obj(b))
    out = _np.empty(A.shape, dtype=object)
    for idx in _np.ndindex(A.shape):
        out[idx] = A[idx] if builtins.bool(A[idx] <= Bv[idx]) else Bv[idx]
    return ndarray(out)


def clip(a, a_min=None, a_max=None):
    out = asarray(a)
    if a_min is not None:
        out = maximum(out, a_min)
    if a_max is not None:
        out = minimum(out, a_max)
    return out


def argmin(a, axis=None):
    v = list(_obj(a).flatten())
    best = 0
    for i in range(1, len(v)):
        if builtins.bool(v[i] < v[best]):
            best = i
    return ndarray(_wrap0(SC.lift(best)))


def cumsum(a, axis=None):
    v = _obj(a)
    if axis is None:
        v = v.flatten()
        axis = 0
    out = v.copy()
    v2 = _np.moveaxis(out, int(axis), 0)
    for i in range(1, v2.shape[0]):
        v2[i] = v2[i - 1] + v2[i]
    return ndarray(out)


def mean(a, axis=None):
    v = _obj(a)
    n = v.size if axis is None else v.shape[int(axis)]
    return sum(a, axis) / n


def sign(a):
    def f(x):
        if builtins.bool(x > 0):
            return _SC1
        if builtins.bool(x < 0):
            return SC.lift(-1)
        return _SC0

    return _map(f, a)


def isnan(a):
    return ndarray(_asobj(_np.frompyfunc(lambda x: False, 1, 1)(_obj(a))))


def isfinite(a):
    return ndarray(_asobj(_np.frompyfunc(lambda x: True, 1, 1)(_obj(a))))


def round(a, decimals=0):
    return _map(lambda x: SC.lift(builtins.round(float(_need_const_real(x, "round")), int(decimals))), a)


def expand_dims(a, axis):
    return ndarray(_np.expand_dims(_obj(a), axis), _kind_of(a))


def squeeze(a, axis=None):
    return ndarray(_np.squeeze(_obj(a), axis), _kind_of(a))


def tensordot(a, b, axes=2):
    return ndarray(_asobj(_np.tensordot(_obj(a), _obj(b), axes=axes)), _prom(_kind_of(a), _kind_of(b)))


def ones_like(a, dtype=None):
    z = zeros_like(a, dtype)
    z._v.fill(_SC1)
    return z


def full(shape, fill_value, dtype=None):
    z = zeros(shape)
    k = _kind_of(fill_value) if dtype is None else _kind_from_dtype(dtype)
    x = _lift(fill_value)
    if k in ("f", "i", "b") and isinstance(x, SC) and x.im.t:
        x = x.real
    z._v.fill(x)
    z._dt = k
    return z


def linspace(start, stop, num=50):
    return array(_np.linspace(float(start), float(stop), int(num)))


def _derived_angle(build, m=1):
    """a fresh angle phi with atoms (cos phi/m, sin phi/m) tied to symbolic data by `build(c, s) -> list of formulas`"""
    n = len(core.CTX.names)
    t = core.angle(f"dang{n}", m)
    tv = next(iter(t.vars()))
    _m, c, s = core.CTX.angles[tv]
    extra = build(Poly.var(c), Poly.var(s))
    core.CTX.defs[c] = list(core.CTX.defs[c]) + list(extra)
    core.CTX.defs[s] = core.CTX.defs[c]
    return SC(t), c, s


def mod(a, n):
    """x mod n.  Constants: numeric.  A symbolic ANGLE theta (atoms cos/sin of theta/m, m in {1, 2}) modulo 2*pi: a derived
    angle phi in [0, 2*pi) with the same cos/sin as theta; for m = 2 the half-angle atoms of phi are +-(those of theta) with
    sin(phi/2) >= 0 (and phi/2 != pi) - exactly the sign flip R(theta + 2*pi) = -R(theta) of half-angle formulas."""
    def f(x, y):
        if x.im.t or y.im.t:
            raise Unsupported("mod of complex argument")
        if x.is_const() and y.is_const():
            return SC.lift(math.fmod(math.fmod(float(x.re.cval()), float(y.re.cval())) + float(y.re.cval()), float(y.re.cval())))
        if not (y.is_const() and builtins.abs(float(y.re.cval()) - 2 * math.pi) < 1e-12):
            raise Unsupported("mod of a symbolic value by something other than 2*pi")
        terms = x.re.t
        if len(terms) != 1:
            raise Unsupported("mod of a symbolic expression that is not a single angle")
        (mono, coef), = terms.items()
        if len(mono) != 1 or mono[0][1] != 1 or mono[0][0] not in core.CTX.angles or coef != 1:
            raise Unsupported("mod of a symbolic expression that is not a single angle")
        mm, cv, sv = core.CTX.angles[mono[0][0]]
        c0, s0 = Poly.var(cv), Poly.var(sv)
        if mm == 1:
            ang, c, s_ = _derived_angle(lambda cp, sp: [f_cmp(cp - c0, "=="), f_cmp(sp - s0, "==")], 1)
        elif mm == 2:
            def build(cp, sp):
                same = f_and(f_cmp(cp - c0, "=="), f_cmp(sp - s0, "=="))
                flip = f_and(f_cmp(cp + c0, "=="), f_cmp(sp + s0, "=="))
                rng = f_or(f_cmp(sp, ">"), f_and(f_cmp(sp, "=="), f_cmp(cp - core.ONE, "==")))
                return [f_or(same, flip), rng]

            ang, c, s_ = _derived_angle(build, 2)
        else:
            raise Unsupported("mod of an angle with resolution finer than 1/2")
        return ang

    A, N = _np.broadcast_arrays(_obj(a), _obj(n))
    out = _np.empty(A.shape, dtype=object)
    for idx in _np.ndindex(A.shape):
        out[idx] = f(A[idx], N[idx])
    return ndarray(out, "f")


remainder = mod


def arctan(a):
    def f(x):
        if x.im.t:
            raise Unsupported("arctan of complex argument")
        if x.is_const():
            return SC.lift(math.atan(float(x.re.cval())))
        # phi in (-pi/2, pi/2) with tan(phi) = x  <=>  sin(phi) = x cos(phi), cos(phi) > 0
        q = x.re
        ang, c, s = _derived_angle(lambda cp, sp: [f_cmp(sp - q * cp, "=="), f_cmp(cp, ">")])
        core.CTX.meta[c] = ("atan", q, s)
        return ang

    return _map(f, a)


def arctan2(y, x):
    Y, X = _np.broadcast_arrays(_obj(y), _obj(x))
    out = _np.empty(Y.shape, dtype=object)
    for idx in _np.ndindex(Y.shape):
        yy, xx = Y[idx], X[idx]
        if yy.im.t or xx.im.t:
            raise Unsupported("arctan2 of complex argument")
        if yy.is_const() and xx.is_const():
            out[idx] = SC.lift(math.atan2(float(yy.re.cval()), float(xx.re.cval())))
            continue
        r = core.sqrt_poly(yy.re * yy.re + xx.re * xx.re)
        explore.EXP.check_divisor(SC(r))
        ang, c, s = _derived_angle(lambda cp, sp: [f_cmp(cp * r - xx.re, "=="), f_cmp(sp * r - yy.re, "==")])
        core.CTX.meta[c] = ("atan2", yy.re, xx.re, s)
        out[idx] = ang
    return ndarray(out)


def _angle_sym(a):
    def f(x):
        if x.is_const():
            return SC.lift(math.atan2(float(x.im.cval()), float(x.re.cval())))
        r = core.sqrt_poly(x.abs2())
        explore.EXP.check_divisor(SC(r))
        ang, c, s = _derived_angle(lambda cp, sp: [f_cmp(cp * r - x.re, "=="), f_cmp(sp * r - x.im, "==")])
        core.CTX.meta[c] = ("atan2", x.im, x.re, s)
        return ang

    return _map(f, a)


angle = _angle_sym


def __getattr__(name):
    if name.startswith("_"):
        raise AttributeError(name)
    raise Unsupported(f"jax.numpy.{name} is not modelled by the symx shim")
