"""Model of jax.scipy.linalg.expm.

  * all-constant argument -> scipy's expm, entries injected as the exact rationals of the doubles
    (inexact: obligations depending on them are tolerance obligations);
  * argument = s*G with G constant (algebraic atoms allowed) and s one free real variable that
    occurs linearly in every entry -> Cayley-Hamilton form sum_{k<n} c_k G^k with fresh complex
    c_k (every matrix function of s*G has this form, so what is proved for all c_k holds for expm);
  * anything else -> uninterpreted: a matrix of fresh symbols, equal arguments give equal results.
Every call logs its argument so that harnesses can check the generator the code passes."""
import numpy as _np

from symx import core, explore
from symx.core import ONE, ZERO, SC, Poly

LOG = []  # per path; harnesses clear it
MODE = {"ch": True}


def _free_vars(M):
    free = set()
    for x in M.flatten():
        for p in (x.re, x.im):
            for v in p.vars():
                if core.CTX.kind[v] != "alg":
                    free.add(v)
    return free


def _strip(p: Poly, v):
    out = {}
    for mono, c in p.t.items():
        d = dict(mono)
        if d.get(v, 0) != 1:
            return None
        del d[v]
        out[tuple(sorted(d.items()))] = c
    return Poly(out)


def expm(m, *a, **kw):
    import jax.numpy as jnp

    M = jnp.asarray(m)._v
    if M.ndim != 2 or M.shape[0] != M.shape[1]:
        raise ValueError("expm expects a square matrix")
    n = M.shape[0]
    free = _free_vars(M)
    tag = len(LOG)
    if not free:
        if all(x.is_const() for x in M.flatten()):
            import scipy.linalg as sl

            A = _np.array([[complex(x) for x in row] for row in M], dtype=complex)
            out = jnp.array(sl.expm(A))
            LOG.append({"arg": M.copy(), "out": out, "mode": "numeric"})
            return out
        # constants with algebraic atoms: evaluate the atoms numerically
        env = {v: float(core.CTX.rules[v].cval()) ** 0.5 for v in range(len(core.CTX.names))
               if core.CTX.kind[v] == "alg"}
        import scipy.linalg as sl

        A = _np.array([[x.eval(env) for x in row] for row in M], dtype=complex)
        out = jnp.array(sl.expm(A))
        LOG.append({"arg": M.copy(), "out": out, "mode": "numeric"})
        return out
    if len(free) == 1 and MODE["ch"]:
        v = next(iter(free))
        G = _np.empty(M.shape, dtype=object)
        ok = True
        for idx in _np.ndindex(M.shape):
            re, im = _strip(M[idx].re, v), _strip(M[idx].im, v)
            if re is None or im is None:
                ok = False
                break
            G[idx] = SC(re, im)
        if ok:
            P = jnp.eye(n)
            U = jnp.zeros((n, n))
            Gs = jnp.ndarray(G)
            for k in range(n):
                ck = SC(core.pvar(f"ch{tag}_{k}_r", "ch"), core.pvar(f"ch{tag}_{k}_i", "ch"))
                U = U + P * ck
                if k < n - 1:
                    P = jnp.matmul(P, Gs)
            LOG.append({"arg": M.copy(), "out": U, "mode": "cayley-hamilton", "var": v, "G": G})
            return U
    key = ("expm", tuple((x.re.key(), x.im.key()) for x in M.flatten()), M.shape)
    cached = core.CTX.cache.get(key)
    if cached is None:
        U = _np.empty(M.shape, dtype=object)
        for idx in _np.ndindex(M.shape):
            U[idx] = SC(core.pvar(f"ex{tag}_{idx[0]}_{idx[1]}_r", "ch"), core.pvar(f"ex{tag}_{idx[0]}_{idx[1]}_i", "ch"))
        cached = jnp.ndarray(U)
        core.CTX.cache[key] = cached
    LOG.append({"arg": M.copy(), "out": cached, "mode": "uninterpreted"})
    return cached
