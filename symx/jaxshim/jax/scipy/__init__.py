from . import linalg  # noqa: F401
