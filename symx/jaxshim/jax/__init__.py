"""Model of the `jax` package used to execute photon_weave symbolically (symx engine E1).

Put /verif/symx/jaxshim in front of sys.path: `import jax`, `import jax.numpy as jnp`,
`from jax.scipy.linalg import expm`, `jax.random.*` resolve here.  Arrays hold symbolic
complex polynomials (symx.core.SC); branches on them are decided by the SMT solver.
"""
from . import numpy  # noqa: F401
from . import random  # noqa: F401
from . import scipy  # noqa: F401
from .numpy import ndarray as Array  # noqa: F401

__version__ = "symx-shim"


class _Config:
    def update(self, *a, **k):
        pass


config = _Config()


def jit(f=None, **kw):
    if f is None:
        return lambda g: g
    return f
