"""symx core: polynomial term language, symbolic complex scalars, formulas.

A value of the implementation under test is a complex number whose real and
imaginary parts are polynomials over Q in SMT real variables, kept in normal
form modulo definitional rewrite rules (v^2 -> poly).  Formulas are small
tuples that are emitted as SMT-LIB text by symx.smt.
"""
from __future__ import annotations

import math
from fractions import Fraction

# ----------------------------------------------------------------------------
# context
# ----------------------------------------------------------------------------


class Ctx:
    """Per-path symbol table. Re-created (deterministically) on every re-execution."""

    def __init__(self):
        self.names = []  # var id -> name
        self.kind = []  # var id -> 'free' | 'sqrt' | 'inv' | 'alg' | 'cos' | 'sin' | 'ch'
        self.rules = {}  # var id -> Poly  (v^2 -> poly)
        self.defs = {}  # var id -> list of formulas that define it (side constraints)
        self.invdef = {}  # inv var id -> Poly d   (v * d = 1)
        self.sqrtdef = {}  # sqrt var id -> Poly x (v*v = x, v >= 0)
        self.cache = {}
        self.assume = []  # harness assumptions (formulas)
        self.meta = {}  # var id -> harness meta (e.g. which array entry)
        self.angles = {}  # angle var id -> (m, cos var id, sin var id)
        self.samplers = []  # callables (rng, env) that assign a random *valid* value to the input variables
        self.spheres = []  # lists of var ids whose squares sum to 1 (normalised vectors)
        self.physical = []  # extra constraints that make 'herm' contents valid states (used for model search only)

    def var(self, name, kind="free", rule=None):
        i = len(self.names)
        self.names.append(name)
        self.kind.append(kind)
        if rule is not None:
            self.rules[i] = rule
        return i


CTX = Ctx()


def reset():
    global CTX
    CTX = Ctx()
    return CTX


def ctx():
    return CTX


# ----------------------------------------------------------------------------
# polynomials
# ----------------------------------------------------------------------------


def _norm(c):
    if type(c) is Fraction and c.denominator == 1:
        return c.numerator
    return c


class Poly:
    """Sparse multivariate polynomial; monomial = sorted tuple of (var, exp)."""

    __slots__ = ("t",)

    def __init__(self, t=None):
        self.t = t if t is not None else {}

    @staticmethod
    def const(c):
        if isinstance(c, float):
            c = Fraction(c)
        c = _norm(c)
        return Poly({(): c} if c else {})

    @staticmethod
    def var(i):
        return Poly({((i, 1),): 1})

    def is_const(self):
        t = self.t
        return not t or (len(t) == 1 and () in t)

    def is_zero(self):
        return not self.t

    def cval(self):
        return self.t.get((), 0)

    def __add__(self, o):
        if not o.t:
            return self
        if not self.t:
            return o
        t = dict(self.t)
        for m, c in o.t.items():
            v = t.get(m)
            if v is None:
                t[m] = c
            else:
                v = _norm(v + c)
                if v:
                    t[m] = v
                else:
                    del t[m]
        return Poly(t)

    def __neg__(self):
        return Poly({m: -c for m, c in self.t.items()})

    def __sub__(self, o):
        if not o.t:
            return self
        t = dict(self.t)
        for m, c in o.t.items():
            v = t.get(m)
            if v is None:
                t[m] = -c
            else:
                v = _norm(v - c)
                if v:
                    t[m] = v
                else:
                    del t[m]
        return Poly(t)

    def scale(self, c):
        if not c:
            return Poly()
        if c == 1:
            return self
        return Poly({m: _norm(v * c) for m, v in self.t.items()})

    def __mul__(self, o):
        st, ot = self.t, o.t
        if not st or not ot:
            return Poly()
        if len(ot) == 1 and () in ot:
            return self.scale(ot[()])
        if len(st) == 1 and () in st:
            return o.scale(st[()])
        rules = CTX.rules
        acc = {}
        need = False
        for m1, c1 in st.items():
            for m2, c2 in ot.items():
                if not m1:
                    m = m2
                elif not m2:
                    m = m1
                else:
                    d = dict(m1)
                    for v, e in m2:
                        if v in d:
                            d[v] += e
                            if v in rules:
                                need = True
                        else:
                            d[v] = e
                    m = tuple(sorted(d.items()))
                c = c1 * c2
                v0 = acc.get(m)
                if v0 is None:
                    acc[m] = c
                else:
                    v0 = _norm(v0 + c)
                    if v0:
                        acc[m] = v0
                    else:
                        del acc[m]
        res = Poly(acc)
        if need:
            res = res.reduce()
        return res

    def __pow__(self, n):
        r = ONE
        for _ in range(int(n)):
            r = r * self
        return r

    def reduce(self):
        """apply v^2 -> rule[v] until no rule variable has exponent >= 2"""
        rules = CTX.rules
        acc = {}
        work = list(self.t.items())
        while work:
            m, c = work.pop()
            hit = None
            for v, e in m:
                if e >= 2 and v in rules:
                    hit = (v, e)
                    break
            if hit is None:
                v0 = acc.get(m)
                if v0 is None:
                    acc[m] = c
                else:
                    v0 = _norm(v0 + c)
                    if v0:
                        acc[m] = v0
                    else:
                        del acc[m]
                continue
            v, e = hit
            q, r = divmod(e, 2)
            rest = tuple((vv, ee) for (vv, ee) in m if vv != v)
            if r:
                rest = tuple(sorted(rest + ((v, 1),)))
            p = Poly({rest: c})
            rp = rules[v]
            for _ in range(q):
                p = p * rp
            work.extend(p.t.items())
        return Poly(acc)

    def __eq__(self, o):
        return isinstance(o, Poly) and self.t == o.t

    def __hash__(self):
        return hash(frozenset(self.t.items()))

    def key(self):
        return frozenset(self.t.items())

    def vars(self):
        s = set()
        for m in self.t:
            for v, _ in m:
                s.add(v)
        return s

    def degree_in(self, v):
        d = 0
        for m in self.t:
            for vv, e in m:
                if vv == v and e > d:
                    d = e
        return d

    def eval(self, env):
        """env: var id -> number (Fraction / float / complex)"""
        s = 0
        for m, c in self.t.items():
            p = c
            for v, e in m:
                p = p * env[v] ** e
            s = s + p
        return s

    def subst(self, v, p):
        """substitute variable v by polynomial p"""
        out = Poly()
        for m, c in self.t.items():
            e = 0
            rest = []
            for vv, ee in m:
                if vv == v:
                    e = ee
                else:
                    rest.append((vv, ee))
            term = Poly({tuple(rest): c})
            if e:
                term = term * (p ** e)
            out = out + term
        return out

    def n_terms(self):
        return len(self.t)

    def __repr__(self):
        if not self.t:
            return "0"
        parts = []
        for m, c in sorted(self.t.items()):
            ms = "*".join(CTX.names[v] + (f"^{e}" if e > 1 else "") for v, e in m)
            parts.append(f"{c}" + (f"*{ms}" if ms else ""))
        return " + ".join(parts)


ZERO = Poly()
ONE = Poly.const(1)


def pvar(name, kind="free"):
    return Poly.var(CTX.var(name, kind))


# ----------------------------------------------------------------------------
# formulas (tuples):  ('cmp', op, Poly)  meaning  poly op 0 ; op in < <= = !=
#                     ('and', [f..]) ('or', [f..]) ('not', f)  True / False
# ----------------------------------------------------------------------------


def f_cmp(p: Poly, op: str):
    """p op 0 with op in {'<','<=','>','>=','==','!='}; constant-folds"""
    if p.is_const():
        c = p.cval()
        return {"<": c < 0, "<=": c <= 0, ">": c > 0, ">=": c >= 0, "==": c == 0, "!=": c != 0}[op]
    if op in ("==", "!="):
        p = _strip_inverse_factor(p)
        if p.is_const():
            c = p.cval()
            return (c == 0) if op == "==" else (c != 0)
    if op == ">":
        return ("cmp", "<", -p)
    if op == ">=":
        return ("cmp", "<=", -p)
    if op == "==":
        return ("cmp", "=", p)
    return ("cmp", op, p)


def _strip_inverse_factor(p: Poly) -> Poly:
    """p = q^k * p' with q an inverse variable (q*d = 1, hence q != 0) common to every monomial:
    p == 0 iff p' == 0"""
    kinds = CTX.kind
    common = None
    for m in p.t:
        d = {v: e for v, e in m if kinds[v] == "inv"}
        if not d:
            return p
        if common is None:
            common = d
        else:
            common = {v: min(e, d[v]) for v, e in common.items() if v in d}
            if not common:
                return p
    if not common:
        return p
    out = {}
    for m, c in p.t.items():
        dd = dict(m)
        for v, e in common.items():
            if dd[v] == e:
                del dd[v]
            else:
                dd[v] -= e
        out[tuple(sorted(dd.items()))] = c
    return Poly(out)


def f_and(*fs):
    out = []
    for f in fs:
        if f is True:
            continue
        if f is False:
            return False
        if isinstance(f, tuple) and f[0] == "and":
            out.extend(f[1])
        else:
            out.append(f)
    if not out:
        return True
    if len(out) == 1:
        return out[0]
    return ("and", out)


def f_or(*fs):
    out = []
    for f in fs:
        if f is False:
            continue
        if f is True:
            return True
        if isinstance(f, tuple) and f[0] == "or":
            out.extend(f[1])
        else:
            out.append(f)
    if not out:
        return False
    if len(out) == 1:
        return out[0]
    return ("or", out)


def f_not(f):
    if f is True:
        return False
    if f is False:
        return True
    if f[0] == "not":
        return f[1]
    if f[0] == "cmp":
        op, p = f[1], f[2]
        if op == "=":
            return ("cmp", "!=", p)
        if op == "!=":
            return ("cmp", "=", p)
        if op == "<":
            return ("cmp", "<=", -p)  # not(p<0) == -p <= 0
        if op == "<=":
            return ("cmp", "<", -p)
    if f[0] == "or":
        return f_and(*[f_not(g) for g in f[1]])
    if f[0] == "and":
        return f_or(*[f_not(g) for g in f[1]])
    return ("not", f)


def f_vars(f, acc=None):
    if acc is None:
        acc = set()
    if f is True or f is False:
        return acc
    if f[0] == "cmp":
        acc |= f[2].vars()
    elif f[0] == "not":
        f_vars(f[1], acc)
    else:
        for g in f[1]:
            f_vars(g, acc)
    return acc


def f_eval(f, env, tol=0):
    """evaluate under a numeric env (exact if env is rational)"""
    if f is True or f is False:
        return f
    k = f[0]
    if k == "cmp":
        v = f[2].eval(env)
        op = f[1]
        if op == "<":
            return v < -tol
        if op == "<=":
            return v <= tol
        if op == "=":
            return abs(v) <= tol
        if op == "!=":
            return abs(v) > tol
    if k == "not":
        return not f_eval(f[1], env, tol)
    if k == "and":
        return all(f_eval(g, env, tol) for g in f[1])
    if k == "or":
        return any(f_eval(g, env, tol) for g in f[1])
    raise ValueError(f)


class SymBool:
    """symbolic boolean; truth-testing asks the explorer (forks)."""

    __slots__ = ("f",)

    def __init__(self, f):
        self.f = f

    def __bool__(self):
        from . import explore

        return explore.EXP.branch(self.f)

    def __and__(self, o):
        return mk_bool(f_and(self.f, lift_bool(o)))

    __rand__ = __and__

    def __or__(self, o):
        return mk_bool(f_or(self.f, lift_bool(o)))

    __ror__ = __or__

    def __invert__(self):
        return mk_bool(f_not(self.f))

    def item(self):
        return self

    def __repr__(self):
        return f"SymBool({self.f!r})"


def lift_bool(b):
    if isinstance(b, SymBool):
        return b.f
    if hasattr(b, "_v"):
        b = b._v.item() if b._v.ndim == 0 else b
        return lift_bool(b)
    return bool(b)


def mk_bool(f):
    if f is True or f is False:
        return f
    return SymBool(f)


# ----------------------------------------------------------------------------
# algebraic atoms: sqrt, inverse, trig
# ----------------------------------------------------------------------------


def _prime_factors(n):
    f = {}
    p = 2
    while p * p <= n:
        while n % p == 0:
            f[p] = f.get(p, 0) + 1
            n //= p
        p += 1
    if n > 1:
        f[n] = f.get(n, 0) + 1
    return f


def sqrt_prime(p):
    k = ("sqrtp", p)
    v = CTX.cache.get(k)
    if v is None:
        v = CTX.var(f"r{p}", "alg", rule=Poly.const(p))
        CTX.cache[k] = v
        pv = Poly.var(v)
        CTX.defs[v] = [("cmp", "=", Poly({((v, 2),): 1}) - Poly.const(p)), ("cmp", "<", -pv)]
    return Poly.var(v)


def sqrt_fraction(q) -> Poly:
    q = Fraction(q)
    assert q >= 0
    n = q.numerator * q.denominator
    if n == 0:
        return ZERO
    if n > 10**12:
        # not a small algebraic number: treat as inexact rational
        return Poly.const(Fraction(math.sqrt(float(q))))
    out = 1
    res = ONE
    for p, e in _prime_factors(n).items():
        out *= p ** (e // 2)
        if e % 2:
            res = res * sqrt_prime(p)
    return res.scale(Fraction(out, q.denominator))


def sqrt_poly(x: Poly) -> Poly:
    if x.is_const():
        return sqrt_fraction(x.cval())
    k = ("sqrt", x.key())
    v = CTX.cache.get(k)
    if v is None:
        v = CTX.var(f"sq{len(CTX.names)}", "sqrt", rule=x)
        CTX.cache[k] = v
        CTX.sqrtdef[v] = x
        pv = Poly.var(v)
        CTX.defs[v] = [("cmp", "=", Poly({((v, 2),): 1}) - x), ("cmp", "<=", -pv)]
    return Poly.var(v)


def _alg_monomial_inverse(x: Poly):
    """1/x when x = c * prod of algebraic sqrt atoms (each exponent 1): returns Poly or None"""
    if len(x.t) != 1:
        return None
    (m, c), = x.t.items()
    for v, e in m:
        if CTX.kind[v] != "alg" or e != 1:
            return None
    den = Fraction(c)
    for v, _ in m:
        den *= CTX.rules[v].cval()
    return Poly({m: _norm(1 / den)})


def inv_poly(x: Poly) -> Poly:
    """1/x ; for symbolic x a definitional variable q with q*x = 1 (callers check x != 0 first)"""
    if x.is_const():
        return Poly.const(1 / Fraction(x.cval()))
    r = _alg_monomial_inverse(x)
    if r is not None:
        return r
    k = ("inv", x.key())
    v = CTX.cache.get(k)
    if v is None:
        v = CTX.var(f"inv{len(CTX.names)}", "inv")
        CTX.cache[k] = v
        CTX.invdef[v] = x
        CTX.defs[v] = [("cmp", "=", Poly.var(v) * x - ONE)]
    return Poly.var(v)


def clear_denominators(p: Poly) -> Poly:
    """Given p (may contain inverse variables), return p' with the same zero set under the
    definitions (q*d = 1, hence d != 0): multiply by d^k and replace q^j d^k by d^(k-j);
    latest-created inverse variables first (their d may mention earlier ones)."""
    invs = sorted((v for v in p.vars() if v in CTX.invdef), reverse=True)
    seen = 0
    while invs:
        v = invs[0]
        d = CTX.invdef[v]
        k = p.degree_in(v)
        out = Poly()
        dp = [ONE]
        for _ in range(k):
            dp.append(dp[-1] * d)
        for m, c in p.t.items():
            e = 0
            rest = []
            for vv, ee in m:
                if vv == v:
                    e = ee
                else:
                    rest.append((vv, ee))
            out = out + Poly({tuple(rest): c}) * dp[k - e]
        p = out
        seen += 1
        if seen > 64:
            break
        invs = sorted((v for v in p.vars() if v in CTX.invdef), reverse=True)
    return p


def angle(name, m=1):
    """a free real angle theta; atoms are cos(theta/m), sin(theta/m).  Returns the Poly var for theta."""
    t = CTX.var(name, "angle")
    c = CTX.var(f"cos_{name}_{m}", "cos")
    s = CTX.var(f"sin_{name}_{m}", "sin")
    CTX.rules[s] = ONE - Poly({((c, 2),): 1})
    CTX.angles[t] = (m, c, s)
    # side constraint tying the atoms together; attached to both atoms
    d = [("cmp", "=", Poly({((c, 2),): 1}) + Poly({((s, 2),): 1}) - ONE)]
    CTX.defs[c] = d
    CTX.defs[s] = d
    return Poly.var(t)


def _cs_multiple(c: Poly, s: Poly, n: int):
    """(cos(n x), sin(n x)) from (cos x, sin x)"""
    if n < 0:
        cc, ss = _cs_multiple(c, s, -n)
        return cc, -ss
    rc, rs = ONE, ZERO
    bc, bs = c, s
    while n:
        if n & 1:
            rc, rs = rc * bc - rs * bs, rs * bc + rc * bs
        bc, bs = bc * bc - bs * bs, bs * bc * Poly.const(2)
        n >>= 1
    return rc, rs


_PI = Fraction(math.pi)


def _const_cs(x: Fraction):
    """cos/sin of a constant: exact for multiples of pi/12 recognised from the double, else inexact rational"""
    xf = float(x)
    k = xf / (math.pi / 12)
    kr = round(k)
    if abs(k - kr) < 1e-9 and abs(kr) < 10**6:
        return _cs_pi12(kr)
    return Poly.const(Fraction(math.cos(xf))), Poly.const(Fraction(math.sin(xf)))


def _cs_pi12(k):
    """exact cos, sin of k*pi/12"""
    k %= 24
    r2 = lambda: sqrt_prime(2)
    r3 = lambda: sqrt_prime(3)
    half = Fraction(1, 2)
    table = {
        0: (ONE, ZERO),
        2: (r3().scale(half), Poly.const(half)),
        3: (r2().scale(half), r2().scale(half)),
        4: (Poly.const(half), r3().scale(half)),
        6: (ZERO, ONE),
    }
    if k in table:
        return table[k]
    if k == 1:
        c = (r2() * r3() + r2()).scale(Fraction(1, 4))
        s = (r2() * r3() - r2()).scale(Fraction(1, 4))
        return c, s
    if k == 5:
        c, s = _cs_pi12(1)
        return s, c
    if k < 12:  # 7..11 : pi - x
        c, s = _cs_pi12(12 - k)
        return -c, s
    c, s = _cs_pi12(k - 12)
    return -c, -s


def cos_sin(x: Poly):
    """cos and sin of a real polynomial that is linear in angle variables (rational coefficients)
    plus a constant; raises Unsupported otherwise"""
    from .explore import Unsupported

    rc, rs = ONE, ZERO
    for m, coef in x.t.items():
        if not m:
            cc, ss = _const_cs(Fraction(coef))
        else:
            if len(m) != 1 or m[0][1] != 1 or m[0][0] not in CTX.angles:
                raise Unsupported(f"trig of non-angle term {Poly({m: coef})!r}")
            mm, cv, sv = CTX.angles[m[0][0]]
            n = Fraction(coef) * mm
            if n.denominator != 1:
                raise Unsupported(f"angle {CTX.names[m[0][0]]} used with finer fraction than 1/{mm}")
            cc, ss = _cs_multiple(Poly.var(cv), Poly.var(sv), int(n))
        rc, rs = rc * cc - rs * ss, rs * cc + rc * ss
    return rc, rs


# ----------------------------------------------------------------------------
# symbolic complex scalars
# ----------------------------------------------------------------------------


def to_exact(x):
    """python / numpy real number -> int or Fraction (exact value of the double)"""
    if isinstance(x, bool):
        return int(x)
    if isinstance(x, int):
        return x
    if isinstance(x, Fraction):
        return _norm(x)
    if isinstance(x, float):
        if x != x or x in (math.inf, -math.inf):
            raise ValueError("nan/inf constant")
        r = round(x)
        if x == r:
            return int(r)
        return Fraction(x)
    import numpy as np

    if isinstance(x, np.bool_):
        return int(x)
    if isinstance(x, np.integer):
        return int(x)
    if isinstance(x, np.floating):
        return to_exact(float(x))
    raise TypeError(type(x))


def _snap(x: float):
    """recognise small algebraic constants that the source computes in floating point
    (1/sqrt(2), sqrt(3)/2, ...) -> exact Poly, else exact rational of the double"""
    e = to_exact(x)
    if isinstance(e, int):
        return Poly.const(e)
    if e.denominator < 2**20:
        return Poly.const(e)
    # try sign * sqrt(a/b) with small a, b
    sq = x * x
    fr = Fraction(sq).limit_denominator(4096)
    if abs(float(fr) - sq) < 1e-14 and fr > 0:
        s = sqrt_fraction(fr)
        return s if x > 0 else -s
    return Poly.const(e)


class SC:
    """symbolic complex scalar: re + i im with Poly parts"""

    __slots__ = ("re", "im")
    __array_priority__ = 1000

    def __init__(self, re, im=ZERO):
        self.re = re
        self.im = im

    @staticmethod
    def lift(x):
        if isinstance(x, SC):
            return x
        if isinstance(x, Poly):
            return SC(x)
        if isinstance(x, (bool, int)):
            return SC(Poly.const(int(x)))
        if isinstance(x, float):
            return SC(_snap(x))
        if isinstance(x, complex):
            return SC(_snap(x.real), _snap(x.imag))
        if isinstance(x, Fraction):
            return SC(Poly.const(x))
        import numpy as np

        if isinstance(x, np.complexfloating):
            return SC.lift(complex(x))
        if isinstance(x, np.generic):
            return SC.lift(x.item())
        if hasattr(x, "_v") and x._v.ndim == 0:
            return SC.lift(x._v.item())
        if isinstance(x, np.ndarray) and x.ndim == 0:
            return SC.lift(x.item())
        raise TypeError(f"cannot lift {type(x)}")

    # predicates
    def is_const(self):
        return self.re.is_const() and self.im.is_const()

    def is_real(self):
        return not self.im.t

    def is_zero(self):
        return not self.re.t and not self.im.t

    def _arr(self, o):
        return hasattr(o, "_v") and o._v.ndim > 0

    @staticmethod
    def _nparr(o):
        return type(o).__module__ == "numpy" and getattr(o, "ndim", 0) > 0

    def _elementwise(self, o, f):
        import numpy as np

        out = np.empty(o.shape, dtype=object)
        for idx in np.ndindex(o.shape):
            x = o[idx]
            out[idx] = f(self, x.item() if isinstance(x, np.generic) else x)
        return out

    # arithmetic
    def __add__(self, o):
        if self._arr(o):
            return NotImplemented
        if self._nparr(o):
            return self._elementwise(o, lambda a, b: a + b)
        o = SC.lift(o)
        if isinstance(o, SSq) and not isinstance(o, SAbs):
            if isinstance(self, SSq) and not isinstance(self, SAbs):
                return SSq(self.zs + o.zs)
            if self.is_zero():
                return o
        if isinstance(self, SSq) and not isinstance(self, SAbs) and o.is_zero():
            return self
        if _nonneg(self) and _nonneg(o):
            return SPos(self.re + o.re)
        return SC(self.re + o.re, self.im + o.im)

    __radd__ = __add__

    def __sub__(self, o):
        if self._arr(o):
            return NotImplemented
        if self._nparr(o):
            return self._elementwise(o, lambda a, b: a - b)
        o = SC.lift(o)
        return SC(self.re - o.re, self.im - o.im)

    def __rsub__(self, o):
        if self._nparr(o):
            return self._elementwise(o, lambda a, b: SC.lift(b) - a)
        return SC.lift(o) - self

    def __neg__(self):
        return SC(-self.re, -self.im)

    def __pos__(self):
        return self

    def __mul__(self, o):
        if self._arr(o):
            return NotImplemented
        if self._nparr(o):
            return self._elementwise(o, lambda a, b: a * b)
        o = SC.lift(o)
        if not o.im.t:
            if not self.im.t:
                if _nonneg(self) and _nonneg(o):
                    return SPos(self.re * o.re)
                return SC(self.re * o.re)
            return SC(self.re * o.re, self.im * o.re)
        if not self.im.t:
            return SC(self.re * o.re, self.re * o.im)
        return SC(self.re * o.re - self.im * o.im, self.re * o.im + self.im * o.re)

    __rmul__ = __mul__

    def conj(self):
        if not self.im.t:
            return self
        return SC(self.re, -self.im)

    conjugate = conj

    @property
    def real(self):
        return SC(self.re)

    @property
    def imag(self):
        return SC(self.im)

    def abs2(self) -> Poly:
        if not self.im.t:
            return self.re * self.re
        return self.re * self.re + self.im * self.im

    def __abs__(self):
        if isinstance(self, (SSq, SAbs, SPos)):
            return self
        if not self.im.t and self.re.is_const():
            return SC(Poly.const(abs(self.re.cval())))
        return SAbs(self)

    def __truediv__(self, o):
        if self._arr(o):
            return NotImplemented
        if self._nparr(o):
            return self._elementwise(o, lambda a, b: a / b)
        o = SC.lift(o)
        from . import explore

        if not o.is_const():
            explore.EXP.check_divisor(o)
        elif o.is_zero():
            raise ZeroDivisionError("division by constant zero in implementation")
        if not o.im.t:
            q = inv_poly(o.re)
            if _nonneg(self) and _nonneg(o):
                return SPos(self.re * q)
            return SC(self.re * q, self.im * q)
        d = inv_poly(o.abs2())
        n = self * o.conj()
        return SC(n.re * d, n.im * d)

    def __rtruediv__(self, o):
        if self._nparr(o):
            return self._elementwise(o, lambda a, b: SC.lift(b) / a)
        return SC.lift(o) / self

    def __pow__(self, n):
        if isinstance(n, SC):
            assert n.is_const() and n.is_real(), "symbolic exponent"
            n = n.re.cval()
        if hasattr(n, "_v"):
            return self ** SC.lift(n)
        if isinstance(n, float) and n == int(n):
            n = int(n)
        if isinstance(n, Fraction) and n.denominator == 1:
            n = int(n)
        if isinstance(n, int) and n >= 0:
            r = SC(ONE)
            for _ in range(n):
                r = r * self
            return r
        if n == 0.5 or n == Fraction(1, 2):
            return sc_sqrt(self)
        if isinstance(n, int) and n < 0:
            return SC(ONE) / (self ** (-n))
        raise NotImplementedError(f"pow {n}")

    # comparisons
    def _cmp(self, o, op):
        o = SC.lift(o)
        if isinstance(o, SAbs) and not isinstance(self, SAbs):
            rev = {"<": ">", "<=": ">=", ">": "<", ">=": "<=", "==": "==", "!=": "!="}[op]
            return o._cmp(self, rev)
        if op in ("==", "!="):
            f = f_and(f_cmp(self.re - o.re, "=="), f_cmp(self.im - o.im, "=="))
            if op == "!=":
                f = f_not(f)
            return mk_bool(f)
        # ordering: numpy / JAX compare complex numbers lexicographically (real part first, imaginary part on a tie)
        dre, dim = self.re - o.re, self.im - o.im
        if not dim.t:
            return mk_bool(f_cmp(dre, op))
        strict = ">" if op in (">", ">=") else "<"
        return mk_bool(f_or(f_cmp(dre, strict), f_and(f_cmp(dre, "=="), f_cmp(dim, op))))

    def __eq__(self, o):
        return self._cmp(o, "==")

    def __ne__(self, o):
        return self._cmp(o, "!=")

    def __lt__(self, o):
        return self._cmp(o, "<")

    def __le__(self, o):
        return self._cmp(o, "<=")

    def __gt__(self, o):
        return self._cmp(o, ">")

    def __ge__(self, o):
        return self._cmp(o, ">=")

    __hash__ = None

    # conversions
    def __bool__(self):
        r = self != 0
        return bool(r)

    def __int__(self):
        if not (self.is_const() and self.is_real()):
            raise SymbolicConversion(f"int() of symbolic value {self}")
        return int(self.re.cval())

    def __index__(self):
        c = self.re.cval()
        if not (self.is_const() and self.is_real() and Fraction(c).denominator == 1):
            raise SymbolicConversion(f"index of non-integer/symbolic value {self}")
        return int(c)

    def __float__(self):
        if not (self.is_const() and self.is_real()):
            raise SymbolicConversion(f"float() of symbolic value {self}")
        return float(self.re.cval())

    def __complex__(self):
        if not self.is_const():
            raise SymbolicConversion(f"complex() of symbolic value {self}")
        return complex(float(self.re.cval()), float(self.im.cval()))

    def item(self):
        return self

    def eval(self, env):
        return complex(self.re.eval(env)) + 1j * complex(self.im.eval(env))

    def __repr__(self):
        return f"({self.re}) + i({self.im})" if self.im.t else f"({self.re})"


class SymbolicConversion(Exception):
    """the implementation tried to turn a symbolic value into a Python number (engine limit, not a verdict)"""


class SSq(SC):
    """a real value known to be a sum of squared moduli sum_k |z_k|^2 (e.g. jnp.abs(x)**2, populations):
    comparisons with 0 are decided componentwise (linear atoms instead of a sum-of-squares polynomial)"""

    __slots__ = ("zs",)

    def __init__(self, zs):
        self.zs = [z for z in zs if not z.is_zero()]
        sq = ZERO
        for c in self.zs:
            sq = sq + c.abs2()
        self.re = sq
        self.im = ZERO

    def zero_formula(self):
        fs = []
        for c in self.zs:
            fs.append(f_cmp(c.re, "=="))
            fs.append(f_cmp(c.im, "=="))
        return f_and(*fs)

    def conj(self):
        return self

    conjugate = conj

    @property
    def real(self):
        return self

    def _cmp(self, o, op):
        o = SC.lift(o)
        if o.is_const() and o.is_real() and not isinstance(o, (SSq, SAbs)):
            c = Fraction(o.re.cval())
            if c < 0:
                return {"<": False, "<=": False, ">": True, ">=": True, "==": False, "!=": True}[op]
            if c == 0:
                iszero = self.zero_formula()
                if op in ("<=", "=="):
                    return mk_bool(iszero)
                if op in (">", "!="):
                    return mk_bool(f_not(iszero))
                return op == ">="
        return SC._cmp(self, o, op)


class SAbs(SC):
    """|z| (or the 2-norm of several components) kept lazily: the square-root variable is only created
    when arithmetic needs it; comparisons with 0 are componentwise"""

    __slots__ = ("zs", "sq", "_re")

    def __init__(self, z):
        self.zs = list(z) if isinstance(z, (list, tuple)) else [z]
        sq = ZERO
        for c in self.zs:
            sq = sq + c.abs2()
        self.sq = sq
        self._re = None
        self.im = ZERO

    def _get_re(self):
        if self._re is None:
            if len(self.zs) == 1 and not self.zs[0].im.t:
                # |x| for real x: decide the sign (forks only if both signs are feasible)
                from . import explore

                x = self.zs[0].re
                if explore.EXP.branch(f_cmp(x, ">=")):
                    self._re = x
                else:
                    self._re = -x
            else:
                self._re = sqrt_poly(self.sq)
        return self._re

    re = property(_get_re, lambda self, v: setattr(self, "_re", v))

    def zero_formula(self):
        fs = []
        for c in self.zs:
            fs.append(f_cmp(c.re, "=="))
            fs.append(f_cmp(c.im, "=="))
        return f_and(*fs)

    def is_const(self):
        return self.sq.is_const()

    def is_real(self):
        return True

    def is_zero(self):
        return not self.sq.t

    def abs2(self):
        return self.sq

    def conj(self):
        return self

    conjugate = conj

    def __pow__(self, n):
        if isinstance(n, SC) and n.is_const() and n.is_real():
            n = n.re.cval()
        if hasattr(n, "_v"):
            n = SC.lift(n).re.cval()
        if n == 2:
            return SSq(self.zs)
        return SC.__pow__(self, n)

    def _cmp(self, o, op):
        o = SC.lift(o)
        if isinstance(o, SAbs):
            return mk_bool(f_cmp(self.sq - o.sq, op))
        if o.is_const() and o.is_real():
            c = Fraction(o.re.cval())
            if c < 0:
                return {"<": False, "<=": False, ">": True, ">=": True, "==": False, "!=": True}[op]
            if c == 0:
                iszero = self.zero_formula()
                if op in ("<=", "=="):
                    return mk_bool(iszero)
                if op in (">", "!="):
                    return mk_bool(f_not(iszero))
                return op == ">="
            return mk_bool(f_cmp(self.sq - Poly.const(c * c), op))
        return SC._cmp(self, o, op)


class SPos(SC):
    """a real value known to be >= 0 by construction (sums / products / quotients of squared moduli, norms and
    non-negative constants): comparisons with 0 need no sign reasoning"""

    __slots__ = ()

    def __init__(self, re):
        self.re = re
        self.im = ZERO

    def conj(self):
        return self

    conjugate = conj

    @property
    def real(self):
        return self

    def _cmp(self, o, op):
        o = SC.lift(o)
        if o.is_const() and o.is_real() and not isinstance(o, (SSq, SAbs)):
            c = Fraction(o.re.cval())
            if c < 0:
                return {"<": False, "<=": False, ">": True, ">=": True, "==": False, "!=": True}[op]
            if c == 0:
                iszero = f_cmp(self.re, "==")
                if op in ("<=", "=="):
                    return mk_bool(iszero)
                if op in (">", "!="):
                    return mk_bool(f_not(iszero))
                return op == ">="
        return SC._cmp(self, o, op)


def _nonneg(x):
    if isinstance(x, (SSq, SAbs, SPos)):
        return True
    return x.is_const() and x.is_real() and x.re.cval() >= 0


def sc_sqrt(x: SC) -> SC:
    if not x.is_real():
        from .explore import Unsupported

        raise Unsupported("sqrt of complex symbolic")
    if x.re.is_const() and x.re.cval() < 0:
        return SC(ZERO, sqrt_fraction(-Fraction(x.re.cval())))
    return SC(sqrt_poly(x.re))


def symc(name):
    return SC(pvar(name + "_r"), pvar(name + "_i"))


def symr(name):
    return SC(pvar(name))
