"""Path exploration by re-execution (depth-first over decision prefixes) and obligation discharge."""
from __future__ import annotations

import random
import time
from fractions import Fraction
import traceback

from . import core, smt
from .core import Poly, f_and, f_cmp, f_not, f_or


class PathAbort(BaseException):
    """path is infeasible (or ended by the sampler's contract)"""


class Cut(BaseException):
    """path reached something that is deliberately not encoded (eigh, ...)"""


class Unsupported(BaseException):
    """the shim met a construct it cannot encode: engine limit, reported as inconclusive"""


class Violation:
    def __init__(self, label, kind, model, detail=None):
        self.label = label
        self.kind = kind
        self.model = model
        self.detail = detail or {}

    def __repr__(self):
        return f"Violation({self.label}, {self.kind})"


def _tiny_const(p):
    """a constant residue below 1e-10: rounding of inexact (float-valued) constants, see DESIGN 6.3"""
    return p.is_const() and abs(float(p.cval())) <= 1e-10


class Explorer:
    def __init__(self):
        self.timeout_ms = 10000  # obligations
        self.feas_timeout_ms = 2500  # branch feasibility (unknown => both sides are explored)
        self.seed = 0
        self.rng = random.Random(0)
        self.decide_budget = None
        self.exact_close = False  # jnp.isclose / allclose read as exact equality (harness option "exact_close")
        self.start_path([])
        self.tot = self._zero_tot()

    @staticmethod
    def _zero_tot():
        return {"branches_decided": 0, "forks": 0, "forced": 0, "unknown_feasibility": 0, "obligations": 0,
                "trivial_after_simplify": 0, "discharged_by_solver": 0, "violated": 0, "ob_unknown": 0,
                "choices": 0, "div_checks": 0}

    def start_path(self, prefix):
        self.prefix = list(prefix)
        self.pos = 0
        self.pc = []
        self.decisions = []
        self.pending = []
        self.events = []
        self.flags = set()
        self.violations = []
        self.choices = []  # outcomes chosen by the sampler stub on this path (for replay)
        self._divcache = {}
        self.inputs = {}  # name -> numpy object array of SC / ('angle', var id): the symbolic inputs of the path
        self.draws = []  # sampler log: dicts(site, key, p (list of SC), k)
        self.twin = None  # str(key) -> outcome while a twin run replays the draws of the first run

    def concretise(self, model):
        """evaluate the registered symbolic inputs at a model -> JSON-able dict (for replay)"""
        import math

        import numpy as np

        ctx = core.CTX
        env = {}
        for v in range(len(ctx.names)):
            val = (model or {}).get(v)
            if val is None:
                k = ctx.kind[v]
                val = 1 if k == "cos" else 0
            env[v] = float(val)
        # definitional variables that were not in the query: recompute from their definitions
        for v in range(len(ctx.names)):
            if model is not None and v in model:
                continue
            if v in ctx.sqrtdef:
                try:
                    env[v] = math.sqrt(max(0.0, float(ctx.sqrtdef[v].eval(env))))
                except Exception:
                    pass
            elif v in ctx.invdef:
                try:
                    env[v] = 1.0 / float(ctx.invdef[v].eval(env))
                except Exception:
                    pass
            elif ctx.kind[v] == "alg":
                env[v] = math.sqrt(float(ctx.rules[v].cval()))
        out = {}
        for name, val in self.inputs.items():
            if isinstance(val, tuple) and val[0] == "angle":
                m, c, s = ctx.angles[val[1]]
                out[name] = {"angle": m * math.atan2(env[s], env[c])}
            else:
                arr = np.asarray(val, dtype=object)
                flat = [x.eval(env) if isinstance(x, core.SC) else complex(x) for x in arr.flatten()]
                out[name] = {"shape": list(arr.shape), "re": [z.real for z in flat], "im": [z.imag for z in flat]}
        return out

    # -- queries -----------------------------------------------------------
    def _base(self):
        return list(core.CTX.assume) + list(self.pc)

    def feasible(self, extra, timeout_ms=None, want_model=True):
        """satisfiability of assumptions & path condition & extra.  Cheap SAT attempt first: the query with most free
        input variables fixed to small random rationals (a model of the restricted query is a model of the full one;
        `unsat` of a restricted query is never used).  Then z3 on the full query, then cvc5."""
        fs = self._base()
        if extra is not True:
            fs.append(extra)
        return self._solve(fs, timeout_ms or self.timeout_ms, want_model)

    def _solve(self, fs, timeout_ms, want_model=True):
        if any(g is False for g in fs):
            return smt.solve(fs, timeout_ms, seed=self.seed)
        r, m = self._concretised_sat(fs, tries=3, want_model=want_model)
        if r == "sat":
            self.tot["sat_by_concretisation"] = self.tot.get("sat_by_concretisation", 0) + 1
            smt.STATS["queries"] += 1
            smt.STATS["sat"] += 1
            return r, m
        return smt.solve(fs, timeout_ms, want_model=want_model, seed=self.seed)

    def feasible_side(self, f):
        """feasibility of one side of a branch"""
        r, _ = self.feasible(f, self.feas_timeout_ms, want_model=False)
        return r

    def _concretised_sat(self, fs, tries=4, want_model=False):
        ctx = core.CTX
        # variables constrained by equalities of the path condition stay free, as do the dependent variables of
        # normalised vectors (one per sphere) and all definitional variables
        eq_vars = set()

        def collect(g):
            # equalities in positive position only (a negated equality is satisfied by generic values)
            if isinstance(g, tuple):
                if g[0] in ("and", "or"):
                    for x in g[1]:
                        collect(x)
                elif g[0] == "cmp" and g[1] == "=":
                    eq_vars.update(g[2].vars())

        n_assume = len(core.CTX.assume)
        for g in fs[n_assume:]:  # the harness assumptions (normalisation of input vectors) are handled via spheres
            collect(g)
        used = set()
        for g in fs:
            core.f_vars(g, used)
        sphere_dep = {sph[-2] for sph in ctx.spheres if len(sph) >= 2}
        cand = [v for v in sorted(used) if ctx.kind[v] == "free" and v not in eq_vars and v not in sphere_dep
                and v not in ctx.rules]
        angle_atoms = [(c, sn) for (_m, c, sn) in ctx.angles.values()
                       if (c in used or sn in used) and c not in eq_vars and sn not in eq_vars]
        if not cand and not angle_atoms:
            return "unknown", None
        n = max(4, len(cand))
        for t in range(tries):
            extra = []
            if t < 2:
                # angles: a random rational point of the unit circle (keeps the solver from picking boundary values)
                for c, sn in angle_atoms:
                    u = Fraction(self.rng.randint(-12, 12), self.rng.choice([3, 5, 7]))
                    den = 1 + u * u
                    extra.append(("cmp", "=", Poly.var(c) - Poly.const((1 - u * u) / den)))
                    extra.append(("cmp", "=", Poly.var(sn) - Poly.const(2 * u / den)))
            # the first try fixes everything it may, later tries leave a few variables to the solver
            keep = set(self.rng.sample(cand, min(len(cand), 3))) if t >= 1 else set()
            for v in cand:
                if v in keep:
                    continue
                # small values keep the sum of squares of a normalised vector below one
                val = Fraction(self.rng.randint(-3, 3), 4 * n) if self.rng.random() > 0.2 else Fraction(0)
                extra.append(("cmp", "=", Poly.var(v) - Poly.const(val)))
            r, m = smt.solve(fs + extra, 1500, want_model=want_model, seed=self.seed, portfolio=False, count=False)
            if r == "sat":
                return "sat", m
        return "unknown", None

    # -- branching ---------------------------------------------------------
    def branch(self, f):
        if f is True or f is False:
            return f
        if self.pos < len(self.prefix):
            d = self.prefix[self.pos]
            self.pos += 1
            self.decisions.append(d)
            if d in ("T", "F"):  # forked decision: constrain
                self.pc.append(f if d == "T" else f_not(f))
                return d == "T"
            return d == "t"  # forced decision: implied by pc, nothing to add
        self.tot["branches_decided"] += 1
        rt = self.feasible_side(f)
        rf = self.feasible_side(f_not(f))
        if rt == "unknown" or rf == "unknown":
            self.tot["unknown_feasibility"] += 1
            self.flags.add("unknown_feasibility")
        if rt == "unsat" and rf == "unsat":
            raise PathAbort("infeasible path")
        if rt == "unsat":
            self._push("f")
            self.tot["forced"] += 1
            return False
        if rf == "unsat":
            self._push("t")
            self.tot["forced"] += 1
            return True
        self.tot["forks"] += 1
        self.pending.append(self.decisions + ["F"])
        self._push("T")
        self.pc.append(f)
        return True

    def _push(self, d):
        self.decisions.append(d)
        self.prefix.append(d)
        self.pos += 1

    def choose(self, n, label=""):
        """nondeterministic choice among range(n) (sampler stub): explored exhaustively"""
        self.tot["choices"] += 1
        if self.pos < len(self.prefix):
            d = self.prefix[self.pos]
            self.pos += 1
            self.decisions.append(d)
            return int(d[1:])
        for k in range(n - 1, 0, -1):
            self.pending.append(self.decisions + [f"c{k}"])
        self._push("c0")
        return 0

    def assume(self, f):
        """add a constraint to the path (used by stubs with contracts); aborts if it makes the path infeasible"""
        if f is True:
            return
        if f is False:
            raise PathAbort("assumption false")
        self.pc.append(f)
        r, _ = self.feasible(True)
        if r == "unsat":
            raise PathAbort("assumption infeasible")
        if r == "unknown":
            self.flags.add("unknown_feasibility")

    def check_divisor(self, d: core.SC):
        """a division by symbolic d: if d = 0 is feasible on this path record it (the harness decides
        whether that is a violation), then continue on the d != 0 side"""
        key = ("abs", d.sq.key()) if isinstance(d, core.SAbs) else (d.re.key(), d.im.key())
        if key in self._divcache:
            return
        self._divcache[key] = True
        self.tot["div_checks"] += 1
        if isinstance(d, core.SAbs):
            fz = d.zero_formula()
        else:
            fz = f_and(f_cmp(d.re, "=="), f_cmp(d.im, "=="))
        if fz is False:
            return
        if fz is True:
            self.events.append(("div_by_zero", "certain", None))
            raise PathAbort("division by zero certain")
        if self.pos < len(self.prefix):
            dd = self.prefix[self.pos]
            self.pos += 1
            self.decisions.append(dd)
            if dd == "D":
                self.events.append(("div_by_zero", "feasible", None))
                self.pc.append(f_not(fz))
            return
        r, model = self.feasible(fz)
        if r == "sat":
            self.events.append(("div_by_zero", "feasible", model))
            self._push("D")
            self.pc.append(f_not(fz))
        else:
            if r == "unknown":
                self.flags.add("unknown_feasibility")
            self._push("d")

    # -- obligations ---------------------------------------------------------
    def require_zero(self, polys, label, kind="identity", detail=None):
        """obligation: every polynomial in `polys` is zero on this path"""
        self.tot["obligations"] += 1
        nz = []
        for p in polys:
            if isinstance(p, core.SC):
                for q in (p.re, p.im):
                    if q.t:
                        q = core.clear_denominators(q)
                        if q.t and not _tiny_const(q):
                            nz.append(q)
            else:
                if p.t:
                    p = core.clear_denominators(p)
                    if p.t and not _tiny_const(p):
                        nz.append(p)
        if not nz:
            # normal form closed it; the (now trivial) query PC & false is still counted as discharged
            self.tot["trivial_after_simplify"] += 1
            smt.STATS["queries"] += 1
            smt.STATS["unsat"] += 1
            return True
        # de-duplicate and keep the query small: a disjunction over up to 24 smallest residues first
        uniq = {}
        for p in nz:
            uniq.setdefault(p.key(), p)
        nz = sorted(uniq.values(), key=lambda p: p.n_terms())
        neg = f_or(*[f_cmp(p, "!=") for p in nz[:24]])
        return self._discharge(neg, label, kind, detail, rest=nz[24:])

    def require_zero_guided(self, residues, claim_violated, build_exact, label, kind="identity", detail=None):
        """obligation whose exact polynomial form is expensive: `residues` are small polynomials whose vanishing
        implies the claim.  unsat(PC & some residue != 0) discharges it; a model is checked numerically against the
        claim itself (claim_violated(env)); only if the model does not violate the claim the exact obligation is built."""
        nz = []
        for p in residues:
            for q in ((p.re, p.im) if isinstance(p, core.SC) else (p,)):
                if q.t:
                    q = core.clear_denominators(q)
                    if q.t:
                        nz.append(q)
        if not nz:
            return self.require_zero([], label, kind, detail)
        uniq = {}
        for p in nz:
            uniq.setdefault(p.key(), p)
        nz = sorted(uniq.values(), key=lambda p: p.n_terms())
        self.tot["obligations"] += 1
        tried = 0
        for start in range(0, len(nz), 24):
            neg = f_or(*[f_cmp(p, "!=") for p in nz[start:start + 24]])
            fs = self._base() + [neg]
            r, model = self._solve(fs + list(core.CTX.physical), self.timeout_ms)
            if r == "unsat" and core.CTX.physical:
                r, model = self._solve(fs, self.timeout_ms)
                if r == "sat":
                    self.tot["nonphysical_models"] = self.tot.get("nonphysical_models", 0) + 1
                    self.flags.add("nonphysical_model")
                    self.events.append(("nonphysical_model", label, None))
                    return None
            if r == "unknown":
                m = self.sample_model(neg)
                if m is not None:
                    r, model = "sat", m
            if r == "sat":
                pm = self.polish(model, neg)
                if pm is not None:
                    model = pm
                env = self._float_env(model)
                try:
                    bad = claim_violated(env)
                except (KeyError, ZeroDivisionError, OverflowError):
                    bad = False
                if bad:
                    self.tot["violated"] += 1
                    v = Violation(label, kind, model, detail)
                    v.inputs = self.concretise(model)
                    v.choices = list(self.choices)
                    self.violations.append(v)
                    return False
                tried += 1
                break
            if r == "unknown":
                tried += 1
                break
        if tried == 0:
            self.tot["discharged_by_solver"] += 1
            return True
        # residues differ but the claim held at the model (or solver unknown): decide the exact obligation
        self.tot["obligations"] -= 1
        return self.require_zero(build_exact(), label, kind, detail)

    def _float_env(self, model):
        import math

        ctx = core.CTX
        env = {}
        for v in range(len(ctx.names)):
            val = (model or {}).get(v)
            if val is not None:
                env[v] = float(val)
        for v in range(len(ctx.names)):
            if v in env:
                continue
            k = ctx.kind[v]
            try:
                if k == "alg":
                    env[v] = math.sqrt(float(ctx.rules[v].cval()))
                elif v in ctx.sqrtdef:
                    env[v] = math.sqrt(max(0.0, float(ctx.sqrtdef[v].eval(env))))
                elif v in ctx.invdef:
                    env[v] = 1.0 / float(ctx.invdef[v].eval(env))
                elif k == "cos":
                    env[v] = 1.0
                else:
                    env[v] = 0.0
            except (ZeroDivisionError, KeyError, OverflowError):
                env[v] = 0.0
        return env

    def require(self, f, label, kind="assert", detail=None):
        """obligation: formula f holds on this path"""
        self.tot["obligations"] += 1
        if f is True:
            self.tot["trivial_after_simplify"] += 1
            smt.STATS["queries"] += 1
            smt.STATS["unsat"] += 1
            return True
        return self._discharge(f_not(f) if f is not False else True, label, kind, detail)

    def sample_model(self, neg, tries=300):
        """SAT-side fallback when the solvers answer `unknown`: evaluate the query at random *valid* input
        points (floating point).  A point found here is only a candidate; it becomes a violation only if the
        replay against the real build reproduces it."""
        import math

        ctx = core.CTX
        base = self._base()
        for _ in range(tries):
            env = {}
            for smp in ctx.samplers:
                smp(self.rng, env)
            ok = True
            for v in range(len(ctx.names)):
                if v in env:
                    continue
                k = ctx.kind[v]
                try:
                    if k == "alg":
                        env[v] = math.sqrt(float(ctx.rules[v].cval()))
                    elif v in ctx.sqrtdef:
                        x = float(ctx.sqrtdef[v].eval(env))
                        if x < -1e-12:
                            ok = False
                            break
                        env[v] = math.sqrt(max(x, 0.0))
                    elif v in ctx.invdef:
                        env[v] = 1.0 / float(ctx.invdef[v].eval(env))
                    elif v in ctx.rules and k == "free":
                        x = float(ctx.rules[v].eval(env))
                        env[v] = math.sqrt(max(x, 0.0))
                    else:
                        env[v] = self.rng.gauss(0, 1)
                except (ZeroDivisionError, OverflowError, KeyError):
                    ok = False
                    break
            if not ok:
                continue
            try:
                if not all(core.f_eval(g, env, 1e-9) for g in base):
                    continue
                if core.f_eval(neg, env, 1e-6):
                    from fractions import Fraction

                    self.tot["models_from_sampling"] = self.tot.get("models_from_sampling", 0) + 1
                    return {v: Fraction(x) for v, x in env.items()}
            except (KeyError, OverflowError, ZeroDivisionError):
                continue
        return None

    def polish(self, model, neg):
        """move a counterexample to nearby small dyadic rationals (exact in floating point) while keeping the
        linear equalities of the path condition exactly satisfied, so that violations that need an exact
        cancellation reproduce against the real build.  Returns a model or None (then the original is used)."""
        import math

        ctx = core.CTX
        base = self._base() + list(ctx.physical)
        eqs = []

        def collect(f):
            if isinstance(f, tuple):
                if f[0] == "and":
                    for g in f[1]:
                        collect(g)
                elif f[0] == "cmp" and f[1] == "=":
                    eqs.append(f[2])

        for g in self.pc:
            collect(g)
        in_eq = set()
        for p in eqs:
            in_eq |= p.vars()
        # per normalised vector choose the dependent variable among those outside the equalities
        dependent = {}
        for sph in ctx.spheres:
            cand = [v for v in sph if v not in in_eq and v in model]
            if not cand:
                return None
            cand.sort(key=lambda v: -abs(float(model[v])))
            dependent[cand[0]] = sph
        free = [v for v in model if ctx.kind[v] == "free" and v not in dependent]
        val = {v: Fraction(round(Fraction(model[v]) * 8), 8) for v in free}
        used = set()
        for p in eqs:
            lin = {}
            const = Fraction(0)
            ok = True
            for m, c in p.t.items():
                if not m:
                    const += Fraction(c)
                elif len(m) == 1 and m[0][1] == 1 and m[0][0] in val:
                    lin[m[0][0]] = Fraction(c)
                else:
                    ok = False
                    break
            if not ok or not lin:
                continue
            piv = None
            for v, c in lin.items():
                if v not in used and abs(c) == 1:
                    piv = v
                    break
            if piv is None:
                cand = [v for v in lin if v not in used]
                if not cand:
                    continue
                piv = cand[0]
            rest = const + sum(c * val[v] for v, c in lin.items() if v != piv)
            val[piv] = -rest / lin[piv]
            used.add(piv)
        env = {v: float(x) for v, x in val.items()}
        for dv, sph in dependent.items():
            rest = sum(val[v] * val[v] for v in sph if v != dv and v in val)
            miss = [v for v in sph if v != dv and v not in val]
            if miss or rest > 1:
                return None
            sgn = -1.0 if float(model.get(dv, 1)) < 0 else 1.0
            env[dv] = sgn * math.sqrt(float(1 - rest))
        for v in range(len(ctx.names)):
            if v in env:
                continue
            k = ctx.kind[v]
            try:
                if k == "alg":
                    env[v] = math.sqrt(float(ctx.rules[v].cval()))
                elif v in ctx.sqrtdef:
                    env[v] = math.sqrt(max(0.0, float(ctx.sqrtdef[v].eval(env))))
                elif v in ctx.invdef:
                    env[v] = 1.0 / float(ctx.invdef[v].eval(env))
                elif v in ctx.rules and k == "free":
                    x = float(ctx.rules[v].eval(env))
                    if x < 0:
                        return None
                    sgn = -1.0 if float(model.get(v, 1)) < 0 else 1.0
                    env[v] = sgn * math.sqrt(x)
                elif v in model:
                    env[v] = float(model[v])
                else:
                    env[v] = 0.0
            except (ZeroDivisionError, OverflowError, KeyError, ValueError):
                return None
        try:
            if all(core.f_eval(g, env, 1e-12) for g in base) and core.f_eval(neg, env, 1e-7):
                return {v: Fraction(x) for v, x in env.items()}
        except (KeyError, OverflowError, ZeroDivisionError):
            return None
        return None

    def _discharge(self, neg, label, kind, detail, rest=()):
        r, model = self.feasible(neg)
        if r == "sat" and core.CTX.physical:
            # contents quantified over a superset of the states: look for a counterexample that is a valid state
            r2, m2 = self._solve(self._base() + [neg] + list(core.CTX.physical), self.timeout_ms)
            if r2 == "sat":
                model = m2
            else:
                self.tot["nonphysical_models"] = self.tot.get("nonphysical_models", 0) + 1
                self.flags.add("nonphysical_model")
                self.events.append(("nonphysical_model", label, None))
                return None
        if r == "unknown":
            m = self.sample_model(neg)
            if m is not None:
                r, model = "sat", m
        elif r == "sat":
            pm = self.polish(model, neg)
            if pm is not None:
                model = pm
                self.tot["polished_models"] = self.tot.get("polished_models", 0) + 1
        if r == "unsat" and rest:
            neg2 = f_or(*[f_cmp(p, "!=") for p in rest])
            return self._discharge(neg2, label, kind, detail)
        if r == "unsat":
            self.tot["discharged_by_solver"] += 1
            return True
        if r == "sat":
            self.tot["violated"] += 1
            v = Violation(label, kind, model, detail)
            v.inputs = self.concretise(model)
            v.choices = list(self.choices)
            self.violations.append(v)
            return False
        self.tot["ob_unknown"] += 1
        self.flags.add("obligation_unknown")
        self.events.append(("obligation_unknown", label, None))
        return None

    def witness(self):
        """reachability witness of the current path (vacuity guard): a model of assumptions & pc"""
        r, model = self.feasible(True)
        return r, model


EXP = Explorer()


class PathResult:
    __slots__ = ("decisions", "status", "value", "events", "flags", "violations", "error", "choices", "witness")

    def __init__(self, **kw):
        for k in self.__slots__:
            setattr(self, k, kw.get(k))


def explore(fn, max_paths=400, wall_budget_s=None):
    """run fn() once per feasible path; fn builds its world from scratch each time (deterministically).
    Returns (list of PathResult, truncated flag)."""
    work = [[]]
    results = []
    t0 = time.time()
    truncated = False
    while work:
        if len(results) >= max_paths or (wall_budget_s and time.time() - t0 > wall_budget_s):
            truncated = True
            break
        prefix = work.pop()
        core.reset()
        EXP.start_path(prefix)
        status, value, error = "ok", None, None
        try:
            value = fn()
        except PathAbort as e:
            status, error = "abort", str(e)
        except Cut as e:
            status, error = "cut", str(e)
        except Unsupported as e:
            status, error = "unsupported", str(e)
        except core.SymbolicConversion as e:
            status, error = "unsupported", "symbolic->python conversion: " + str(e)
        except Exception as e:  # an exception raised by the implementation (or harness) on this path
            status = "exc"
            error = type(e).__name__ + ": " + str(e)[:300]
            value = e
            try:
                # Matrix-level contents are quantified over a superset of the states: the path must be reachable with a
                # valid state, otherwise it is flagged and re-examined with always-valid (rank<=2) contents
                if core.CTX.physical:
                    r, model = EXP._solve(EXP._base() + list(core.CTX.physical), EXP.timeout_ms)
                    if r != "sat":
                        EXP.flags.add("nonphysical_model")
                        EXP.events.append(("nonphysical_model", "exception path: " + error[:120], None))
                else:
                    r, model = EXP.witness()
                if r == "sat":
                    v = Violation("unexpected exception", "exception", model, {"error": error})
                    v.inputs = EXP.concretise(model)
                    v.choices = list(EXP.choices)
                    EXP.violations.append(v)
                elif r == "unknown":
                    # neither a witness nor a refutation of this exception path: never silently dropped
                    EXP.tot["ob_unknown"] += 1
                    EXP.flags.add("obligation_unknown")
                    EXP.events.append(("obligation_unknown", "exception path without witness: " + error[:160], None))
                elif r == "unsat" and not core.CTX.physical:
                    status = "abort"
            except BaseException:
                pass
            if not getattr(e, "_symx_expected", False):
                tb = traceback.format_exc().splitlines()
                error += " @ " + " | ".join(l.strip() for l in tb[-6:-1])[:600]
        results.append(PathResult(decisions=list(EXP.decisions), status=status, value=value, events=list(EXP.events),
                                  flags=set(EXP.flags), violations=list(EXP.violations), error=error,
                                  choices=list(EXP.choices)))
        work.extend(EXP.pending)
    return results, truncated
