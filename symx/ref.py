"""Independent dense reference model.

Plain numpy code over arrays whose dtype is either `object` (elements symx.core.SC: symbolic run)
or complex (replay against the real build).  No einsum strings and no kron-order conventions are
shared with the code under test: everything is reshape / moveaxis / tensordot on explicit axes.
A joint state is a pair (rho, dims): rho is a (D, D) density matrix, dims the list of subsystem
dimensions in tensor order (D = prod dims).
"""
import numpy as np


def is_obj(a):
    return isinstance(a, np.ndarray) and a.dtype == object


def conj(a):
    if is_obj(a):
        out = np.empty(a.shape, dtype=object)
        for idx in np.ndindex(a.shape):
            out[idx] = a[idx].conj()
        return out
    return np.conj(a)


def zeros(shape, like):
    if is_obj(like):
        from symx.core import SC, ZERO

        out = np.empty(shape, dtype=object)
        out.fill(SC(ZERO))
        return out
    return np.zeros(shape, dtype=complex)


def const(x, like):
    if is_obj(like):
        from symx.core import SC

        return SC.lift(x)
    return complex(x)


def ket(k, d, like):
    v = zeros((d, 1), like)
    v[k, 0] = const(1, like)
    return v


def outer(psi):
    """|psi><psi| of a (d,1) or (d,) vector"""
    v = psi.reshape(-1)
    c = conj(v)
    out = zeros((len(v), len(v)), psi)
    for i in range(len(v)):
        for j in range(len(v)):
            out[i, j] = v[i] * c[j]
    return out


def kron(a, b):
    out = zeros((a.shape[0] * b.shape[0], a.shape[1] * b.shape[1]), a if is_obj(a) else b)
    if not is_obj(out):
        return np.kron(a, b)
    for i in range(a.shape[0]):
        for j in range(a.shape[1]):
            x = a[i, j]
            if getattr(x, "is_zero", lambda: False)():
                continue
            for k in range(b.shape[0]):
                for l in range(b.shape[1]):
                    out[i * b.shape[0] + k, j * b.shape[1] + l] = x * b[k, l]
    return out


def trace(a):
    acc = const(0, a)
    for i in range(a.shape[0]):
        acc = acc + a[i, i]
    return acc


def matmul(a, b):
    return np.matmul(a, b)


def dagger(a):
    return conj(a).T


def permute(rho, dims, perm):
    """new tensor order: position k of the result holds old subsystem perm[k]"""
    n = len(dims)
    T = rho.reshape(list(dims) + list(dims))
    T = T.transpose(list(perm) + [n + p for p in perm])
    nd = [dims[p] for p in perm]
    D = int(np.prod(nd)) if nd else 1
    return T.reshape(D, D), nd


def apply_op(rho, dims, pos, O):
    """(O on subsystems `pos` (in that factor order) x identity) rho (same)^dagger"""
    n = len(dims)
    k = len(pos)
    od = [dims[p] for p in pos]
    Ot = O.reshape(od + od)  # out..., in...
    T = rho.reshape(list(dims) + list(dims))
    # rows
    T = np.tensordot(Ot, T, axes=(list(range(k, 2 * k)), list(pos)))  # axes: out(pos order)..., remaining
    T = np.moveaxis(T, list(range(k)), list(pos))
    # columns
    Oc = conj(Ot)
    T = np.tensordot(T, Oc, axes=([n + p for p in pos], list(range(k, 2 * k))))  # ..., out cols at the end
    T = np.moveaxis(T, list(range(2 * n - k, 2 * n)), [n + p for p in pos])
    D = int(np.prod(dims))
    return T.reshape(D, D)


def kraus(rho, dims, pos, Ks):
    out = None
    for K in Ks:
        t = apply_op(rho, dims, pos, K)
        out = t if out is None else out + t
    return out


def partial_trace(rho, dims, keep):
    """reduced state of subsystems `keep` (positions, in the requested order)"""
    n = len(dims)
    T = rho.reshape(list(dims) + list(dims))
    drop = [i for i in range(n) if i not in keep]
    # bring to order keep..., drop... on both row and column groups
    order = list(keep) + drop
    T = T.transpose(order + [n + p for p in order])
    kd = [dims[p] for p in keep]
    dd = [dims[p] for p in drop]
    K = int(np.prod(kd)) if kd else 1
    Dd = int(np.prod(dd)) if dd else 1
    T = T.reshape(K, Dd, K, Dd)
    out = zeros((K, K), rho)
    for i in range(K):
        for j in range(K):
            acc = const(0, rho)
            for x in range(Dd):
                acc = acc + T[i, x, j, x]
            out[i, j] = acc
    return out, kd


def project(rho, dims, pos, k):
    """unnormalised post-measurement state: |k><k| on subsystem pos, then that subsystem removed"""
    n = len(dims)
    T = rho.reshape(list(dims) + list(dims))
    idx = [slice(None)] * (2 * n)
    idx[pos] = k
    idx[n + pos] = k
    T = T[tuple(idx)]
    if not isinstance(T, np.ndarray):  # every subsystem projected: a scalar
        w = zeros((1, 1), rho)
        w[0, 0] = T
        T = w
    nd = [d for i, d in enumerate(dims) if i != pos]
    D = int(np.prod(nd)) if nd else 1
    return T.reshape(D, D), nd


def project_keep(rho, dims, pos, k):
    """unnormalised post-measurement state with the measured subsystem kept in |k><k|"""
    n = len(dims)
    T = rho.reshape(list(dims) + list(dims))
    out = zeros(tuple(list(dims) + list(dims)), rho)
    idx = [slice(None)] * (2 * n)
    idx[pos] = k
    idx[n + pos] = k
    out[tuple(idx)] = T[tuple(idx)]
    D = int(np.prod(dims)) if dims else 1
    return out.reshape(D, D)


def diag_marginal(rho, dims, pos):
    """diagonal of the reduced state of one subsystem: the Born distribution (unnormalised if rho is)"""
    red, _ = partial_trace(rho, dims, [pos])
    return [red[i, i] for i in range(red.shape[0])]


def number_distribution(rho, dims, modes, nmax):
    """distribution of the total photon number of the Fock subsystems `modes`"""
    out = [const(0, rho) for _ in range(nmax + 1)]
    D = rho.shape[0]
    for i in range(D):
        idx = np.unravel_index(i, dims)
        tot = sum(int(idx[m]) for m in modes)
        if tot <= nmax:
            out[tot] = out[tot] + rho[i, i]
    return out


def permute_vec(psi, dims, perm):
    T = psi.reshape(list(dims))
    T = T.transpose(list(perm))
    return T.reshape(-1, 1), [dims[p] for p in perm]


def kron_vec(a, b):
    a = a.reshape(-1)
    b = b.reshape(-1)
    out = zeros((len(a) * len(b), 1), a if is_obj(a) else b)
    for i in range(len(a)):
        for j in range(len(b)):
            out[i * len(b) + j, 0] = a[i] * b[j]
    return out


def apply_op_vec(psi, dims, pos, O):
    """(O on subsystems pos x identity) psi"""
    k = len(pos)
    od = [dims[p] for p in pos]
    Ot = O.reshape(od + od)
    T = psi.reshape(list(dims))
    T = np.tensordot(Ot, T, axes=(list(range(k, 2 * k)), list(pos)))
    T = np.moveaxis(T, list(range(k)), list(pos))
    return T.reshape(-1, 1)
