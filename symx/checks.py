"""Assertions shared by the harnesses: state comparison against the reference, well-formedness (C07/C13)."""
from __future__ import annotations

import numpy as np

from . import ref
from .world import WFError, components


def compare_joint(B, W, pre, post, targets, transform, label, renorm=False, observe=True, operator=None, headroom=0,
                  unchanged_kind="bystander"):
    """For every component of the common coarsening of the pre/post block partitions:
    post joint state == transform(pre joint state) if the component contains the targets, else == pre.
    transform(rho, dims, pos) -> rho' (unnormalised when renorm=True: compared up to the trace).
    If `operator(dims, pos) -> O` is given the map is rho -> (O x 1) rho (O x 1)^+ and, when every block of the
    component is held as label/vector, the comparison is done on state vectors (up to a global phase)."""
    ok = True
    comps = components(pre, post, force_together=targets)
    tset = {id(t) for t in targets}
    for comp in comps:
        live_post = {id(m) for m in post.live()}
        live_pre = {id(m) for m in pre.live()}
        if not all(id(m) in live_post and id(m) in live_pre for m in comp):
            raise WFError("compare_joint: component has subsystems that are not live in both snapshots: "
                          + str([W.name_of(m) for m in comp]))
        names = [W.name_of(m) for m in comp]
        has_t = any(id(m) in tset for m in comp)
        pos = [[id(m) for m in comp].index(id(t)) for t in targets] if has_t else None
        if pre.is_pure_level(comp) and post.is_pure_level(comp) and (operator is not None or not has_t):
            psi0, d0 = pre.joint_vector(comp)
            psi1, d1 = post.joint_vector(comp)
            big = [max(a, b) for a, b in zip(d0, d1)]
            if has_t and headroom:
                for p_ in pos:
                    big[p_] += headroom
            if list(d0) != big or list(d1) != big:
                psi0, psi1, dims = _pad_vec(psi0, d0, big), _pad_vec(psi1, d1, big), big
            else:
                dims = d0
            if has_t:
                w = ref.apply_op_vec(psi0, dims, pos, operator(dims, pos))
                r = B.require_parallel(psi1, w, f"{label}: joint state of {names}", "state-map", same_norm=not renorm)
            else:
                r = B.require_parallel(psi1, psi0, f"{label}: {unchanged_kind} component {names} changed", unchanged_kind,
                                       same_norm=True)
            if observe and hasattr(B, "observed"):
                B.observed["postvec:" + ",".join(names)] = psi1
            ok = ok and (r is not False)
            continue
        rho0, dims = pre.joint(comp)
        rho1, dims1 = post.joint(comp)
        big = [max(a, b) for a, b in zip(dims, dims1)]
        if has_t and headroom:
            for p_ in pos:
                big[p_] += headroom
        if list(dims) != big or list(dims1) != big:
            # dimension changes (automatic resize) / headroom: pad with zeros
            rho0, rho1, dims = _pad(rho0, dims, big), _pad(rho1, dims1, big), big
        if has_t:
            if operator is not None:
                exp = ref.apply_op(rho0, dims, pos, operator(dims, pos))
            else:
                exp = transform(rho0, dims, pos)
            if renorm:
                r = B.require_equal_normalised(rho1, exp, f"{label}: joint state of {names}", "state-map")
            else:
                r = B.require_zero([rho1 - exp], f"{label}: joint state of {names}", "state-map")
        else:
            r = B.require_zero([rho1 - rho0], f"{label}: {unchanged_kind} component {names} changed", unchanged_kind)
        if observe and hasattr(B, "observed"):
            B.observed["post:" + ",".join(names)] = rho1
        ok = ok and (r is not False)
    return ok


def compare_unchanged(B, W, pre, post, label, observe=True):
    """the joint state of every component of the common coarsening of the pre/post partitions is unchanged
    (density matrices; state vectors up to a global phase when every block involved is held as label/vector)"""
    return compare_joint(B, W, pre, post, [], None, label, observe=observe, unchanged_kind="unchanged")


def _pad_vec(psi, dims, new):
    if list(dims) == list(new):
        return psi
    T = psi.reshape(list(dims))
    out = ref.zeros(tuple(new), psi)
    out[tuple(slice(0, d) for d in dims)] = T
    return out.reshape(-1, 1)


def _pad_to_common(rho0, dims0, rho1, dims1):
    dims = [max(a, b) for a, b in zip(dims0, dims1)]
    return _pad(rho0, dims0, dims), _pad(rho1, dims1, dims), dims


def _pad(rho, dims, new):
    if list(dims) == list(new):
        return rho
    n = len(dims)
    T = rho.reshape(list(dims) + list(dims))
    out = ref.zeros(tuple(list(new) + list(new)), rho)
    sl = tuple(slice(0, d) for d in list(dims) + list(dims))
    out[sl] = T
    D = int(np.prod(new))
    return out.reshape(D, D)


def check_wf(B, W, snap, label="wf", unit=True, numeric=True):
    """well-formedness predicate WF (DESIGN appendix A) on a snapshot; structural failures raise WFError
    inside Snapshot(); here: level tags, retirement, registries, and the numeric part as obligations."""
    h = W.h
    EL = h.ExpansionLevel
    ok = True
    for b in snap.blocks:
        names = [W.name_of(m) for m in b.members]
        # A3: representation tag
        if b.kind in ("env", "ps"):
            if b.level not in (EL.Vector, EL.Matrix):
                raise WFError(f"{label}: block {names} has level {b.level!r}")
            for m in b.members:
                if m.expansion_level != b.level:
                    raise WFError(f"{label}: {W.name_of(m)} reports level {m.expansion_level!r}, its block {b.level!r}")
                if m.state is not None:
                    raise WFError(f"{label}: {W.name_of(m)} is in block {names} but also holds its own state")
        else:
            o = b.members[0]
            if b.level not in (EL.Label, EL.Vector, EL.Matrix):
                raise WFError(f"{label}: {names} has level {b.level!r}")
            if b.level == EL.Label and hasattr(b.array, "shape") and not isinstance(b.array, h.PolarizationLabel):
                raise WFError(f"{label}: {names} claims level Label but holds an array")
        if b.level == EL.Matrix or b.level == EL.Label:
            rho = snap.block_rho(b)  # raises WFError on shape/level mismatch
            tr = ref.trace(rho) if b.level == EL.Matrix else None
        else:
            from .world import block_vector

            psi = block_vector(W, b)  # raises WFError on shape/level mismatch
            tr = ref.const(0, psi)
            for x in psi.reshape(-1):
                tr = tr + x * (x.conjugate() if hasattr(x, "conjugate") else x)
        if numeric and b.level != EL.Label:
            if unit:
                r = B.require_zero([tr - ref.const(1, B.like())], f"{label}: unit trace/norm of {names}", "normalisation")
                ok = ok and (r is not False)
            if b.level == EL.Matrix:
                r = B.require_zero([rho - ref.dagger(rho)], f"{label}: hermiticity of {names}", "hermiticity")
                ok = ok and (r is not False)
    for o in snap.retired:
        if o.state is not None or o.index is not None or o.expansion_level is not None:
            raise WFError(f"{label}: destroyed subsystem {W.name_of(o)} still has state/index/level")
        for ce in W.ces:
            for ps in ce.states:
                if any(x is o for x in ps.state_objs):
                    raise WFError(f"{label}: destroyed subsystem {W.name_of(o)} still listed in a product space")
    check_registries(W, label)
    return ok


def check_registries(W, label="wf"):
    h = W.h
    CE = h.CompositeEnvelope
    for uid, handles in CE._instances.items():
        if uid not in CE._containers:
            raise WFError(f"{label}: handles registered under {uid} but no container")
        for hd in handles:
            if hd.uid != uid and hd.uid not in CE._containers:
                raise WFError(f"{label}: handle with dangling uid")
    for ce in W.ces:
        if ce.uid not in CE._containers:
            raise WFError(f"{label}: composite handle uid not in registry")
        cont = CE._containers[ce.uid]
        ids = [id(p) for p in cont.states]
        if len(ids) != len(set(ids)):
            raise WFError(f"{label}: a product space is listed twice")
        seen = set()
        for i, ps in enumerate(cont.states):
            if len(ps.state_objs) == 0:
                raise WFError(f"{label}: empty product space left in container")
            for j, so in enumerate(ps.state_objs):
                if id(so) in seen:
                    raise WFError(f"{label}: {W.name_of(so)} occurs in two product spaces")
                seen.add(id(so))
                if so.index != (i, j):
                    raise WFError(f"{label}: {W.name_of(so)} has index {so.index!r}, stored at {(i, j)}")
                sce = so.composite_envelope
                if sce is None or CE._containers.get(sce.uid) is not cont:
                    raise WFError(f"{label}: {W.name_of(so)} in a product space of a composite it does not point to")
        eids = [id(e) for e in cont.envelopes]
        if len(eids) != len(set(eids)):
            raise WFError(f"{label}: an envelope is listed twice in its composite")
        for e in cont.envelopes:
            if e.composite_envelope_id is None or CE._containers.get(e.composite_envelope_id) is not cont:
                raise WFError(f"{label}: member envelope does not point back to its composite")
        sids = [id(s) for s in cont.state_objs]
        if len(sids) != len(set(sids)):
            raise WFError(f"{label}: a subsystem is listed twice in its composite")


def structure_signature(W, snap):
    """discrete description of the object graph (for before/after comparisons)"""
    sig = []
    for b in snap.blocks:
        sig.append((b.kind, tuple(W.name_of(m) for m in b.members), int(b.level) if b.level is not None else None,
                    tuple(b.dims)))
    sig.sort()
    return sig, sorted(W.name_of(o) for o in snap.retired)
