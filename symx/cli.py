"""command line driver: python -m symx.cli <Cxx> [--tier quick|thorough] [--only glob] [--replay file] [-v]"""
import argparse
import os
import sys


def main():
    ap = argparse.ArgumentParser()
    ap.add_argument("property")
    ap.add_argument("--tier", default=os.environ.get("VERIF_TIER", "quick"), choices=["quick", "thorough"])
    ap.add_argument("--only", default=None)
    ap.add_argument("--replay", default=None)
    ap.add_argument("--procs", type=int, default=None)
    ap.add_argument("-v", "--verbose", action="store_true")
    a = ap.parse_args()
    if a.replay:
        import subprocess

        env = dict(os.environ)
        here = os.path.dirname(os.path.dirname(os.path.abspath(__file__)))
        env["PYTHONPATH"] = f"{here}:{os.environ.get('PW_REPO', '/repo')}"
        return subprocess.call([sys.executable, "-m", "symx.replay", a.replay], env=env, cwd=here)
    try:
        seed = int(os.environ.get("VERIF_SEED", "0"))
    except ValueError:
        seed = 0
    from symx import runner

    return runner.run_property(a.property, tier=a.tier, seed=seed, only=a.only, procs=a.procs, verbose=a.verbose)


if __name__ == "__main__":
    sys.exit(main())
