"""Backends: the same harness scenario runs
  * symbolically  (SymBackend: contents are fresh SMT symbols, checks are solver obligations), and
  * concretely    (RealBackend: contents come from a counterexample, real JAX, numeric checks) for replay.
"""
from __future__ import annotations

import math
from fractions import Fraction

import numpy as np

from . import core


class SymBackend:
    mode = "sym"

    def __init__(self):
        import jax.numpy as jnp  # the shim

        from . import explore

        self.jnp = jnp
        self.EXP = explore.EXP

    # ---- symbolic inputs ----------------------------------------------------
    def _register(self, name, arr):
        self.EXP.inputs[name] = arr

    def _reused(self, name):
        """twin runs (begin_twin) get the SAME symbolic arrays under the same input names"""
        if getattr(self, "_twin_on", False) and name in self.EXP.inputs:
            return self.jnp.ndarray(self.EXP.inputs[name].copy())
        return None

    def begin_twin(self, outcomes):
        """second run of the same program on this path: inputs are re-used by name, the sampler stub replays the outcome
        recorded for the same key (outcomes: str(key) -> k) instead of forking, and constrains nothing"""
        self._twin_on = True
        self.EXP.twin = dict(outcomes)

    def end_twin(self):
        self._twin_on = False
        self.EXP.twin = None

    def vector(self, name, d):
        """arbitrary unit vector in C^d: 2d real symbols, the last one's square is rewritten by the norm"""
        from .core import ONE, Poly, SC, pvar

        r = self._reused(name)
        if r is not None:
            return r

        ents = []
        others = core.ZERO
        vars_ = []
        for i in range(d):
            re = pvar(f"{name}_{i}r")
            im = pvar(f"{name}_{i}i")
            ents.append(SC(re, im))
            vars_ += [re, im]
        last = vars_[-2]  # real part of the last entry
        for p in vars_:
            if p is not last:
                others = others + p * p
        lv = next(iter(last.vars()))
        core.CTX.rules[lv] = ONE - others
        core.CTX.assume.append(("cmp", "=", last * last if False else Poly({((lv, 2),): 1}) + others - ONE))
        arr = np.empty((d, 1), dtype=object)
        for i, x in enumerate(ents):
            arr[i, 0] = x
        self._register(name, arr)
        ids = [next(iter(p.vars())) for p in vars_]
        core.CTX.spheres.append(ids)

        def sampler(rng, env, ids=ids):
            vals = [rng.gauss(0, 1) if rng.random() > 0.25 else 0.0 for _ in ids]
            n = sum(v * v for v in vals) ** 0.5
            if n == 0:
                vals[0], n = 1.0, 1.0
            for i, v in zip(ids, vals):
                env[i] = v / n

        core.CTX.samplers.append(sampler)
        return self.jnp.ndarray(arr)

    def density(self, name, d, param="herm"):
        """arbitrary unit-trace Hermitian matrix ('herm': superset of the states, linear) or
        arbitrary rank<=2 state psi1 psi1^+ + psi2 psi2^+ ('rank2': always a valid state)"""
        from .core import ONE, Poly, SC, ZERO, pvar

        r = self._reused(name)
        if r is not None:
            return r
        arr = np.empty((d, d), dtype=object)
        assume_physical = param == "hermphys"
        if assume_physical:
            # contents quantified over an open neighbourhood of the maximally mixed state (every matrix in it is a
            # valid state): a polynomial identity that holds on an open set holds everywhere, but support-dependent
            # branches (zero populations) are not explored with this parametrisation
            param = "herm"
        n_phys = len(core.CTX.physical)
        if param == "herm":
            tr = ZERO
            for i in range(d):
                if i < d - 1:
                    x = pvar(f"{name}_d{i}")
                    tr = tr + x
                else:
                    x = ONE - tr
                arr[i, i] = SC(x)
            for i in range(d):
                for j in range(i + 1, d):
                    z = SC(pvar(f"{name}_{i}_{j}r"), pvar(f"{name}_{i}_{j}i"))
                    arr[i, j] = z
                    arr[j, i] = z.conj()
            # model search is restricted to a neighbourhood of the maximally mixed state in which every matrix
            # is diagonally dominant, hence a valid state (a non-zero polynomial cannot vanish on an open set)
            from fractions import Fraction as _F

            eps = _F(1, 4 * d * d)
            for i in range(d - 1):
                x = arr[i, i].re
                core.CTX.physical.append(core.f_cmp(x - Poly.const(_F(1, d) + eps), "<="))
                core.CTX.physical.append(core.f_cmp(Poly.const(_F(1, d) - eps) - x, "<="))
            for i in range(d):
                for j in range(i + 1, d):
                    for q in (arr[i, j].re, arr[i, j].im):
                        core.CTX.physical.append(core.f_cmp(q - Poly.const(eps), "<="))
                        core.CTX.physical.append(core.f_cmp(-q - Poly.const(eps), "<="))

            def sampler(rng, env, arr=arr, d=d):
                k = rng.choice([1, 2, d])
                A = np.array([[complex(rng.gauss(0, 1), rng.gauss(0, 1)) for _ in range(k)] for _ in range(d)])
                R = A @ A.conj().T
                R = R / np.trace(R).real
                for i in range(d):
                    if i < d - 1:
                        env[next(iter(arr[i, i].re.vars()))] = float(R[i, i].real)
                    for j in range(i + 1, d):
                        env[next(iter(arr[i, j].re.vars()))] = float(R[i, j].real)
                        env[next(iter(arr[i, j].im.vars()))] = float(R[i, j].imag)

            core.CTX.samplers.append(sampler)
            if assume_physical:
                core.CTX.assume.extend(core.CTX.physical[n_phys:])
        elif param == "rank2":
            vars_ = []
            psi = [[], []]
            for k in range(2):
                for i in range(d):
                    if k == 1 and i == 0:
                        psi[k].append(SC(ZERO))
                        continue
                    re = pvar(f"{name}_k{k}_{i}r")
                    im = pvar(f"{name}_k{k}_{i}i")
                    psi[k].append(SC(re, im))
                    vars_ += [re, im]
            last = vars_[-2]
            others = ZERO
            for p in vars_:
                if p is not last:
                    others = others + p * p
            lv = next(iter(last.vars()))
            core.CTX.rules[lv] = ONE - others
            core.CTX.assume.append(("cmp", "=", Poly({((lv, 2),): 1}) + others - ONE))
            for i in range(d):
                for j in range(d):
                    if i == j:
                        arr[i, j] = core.SSq([psi[0][i], psi[1][i]])
                    else:
                        arr[i, j] = psi[0][i] * psi[0][j].conj() + psi[1][i] * psi[1][j].conj()
            ids = [next(iter(p.vars())) for p in vars_]
            core.CTX.spheres.append(ids)

            def sampler(rng, env, ids=ids):
                vals = [rng.gauss(0, 1) for _ in ids]
                n = sum(v * v for v in vals) ** 0.5
                for i, v in zip(ids, vals):
                    env[i] = v / n

            core.CTX.samplers.append(sampler)
        else:
            raise ValueError(param)
        self._register(name, arr)
        return self.jnp.ndarray(arr)

    def operator(self, name, rows, cols=None, numpy_array=False):
        """fully symbolic complex matrix"""
        r = self._reused(name)
        if r is not None:
            return r._v.copy() if numpy_array else r
        cols = rows if cols is None else cols
        arr = np.empty((rows, cols), dtype=object)
        for i in range(rows):
            for j in range(cols):
                arr[i, j] = core.symc(f"{name}_{i}_{j}")
        self._register(name, arr)
        ids = [v for x in arr.flatten() for v in (next(iter(x.re.vars())), next(iter(x.im.vars())))]

        def sampler(rng, env, ids=ids):
            for i in ids:
                env[i] = rng.gauss(0, 1)

        core.CTX.samplers.append(sampler)
        if numpy_array:
            return arr.copy()
        return self.jnp.ndarray(arr.copy())

    def angle(self, name, m=1):
        t = core.angle(name, m)
        tv = next(iter(t.vars()))
        self.EXP.inputs[name] = ("angle", tv)
        mm, cv, sv = core.CTX.angles[tv]

        def sampler(rng, env, cv=cv, sv=sv, tv=tv):
            import math as _m

            th = rng.uniform(-_m.pi, _m.pi)
            env[cv], env[sv], env[tv] = _m.cos(th), _m.sin(th), th * mm

        core.CTX.samplers.append(sampler)
        return core.SC(t)

    def real(self, name):
        x = core.symr(name)
        arr = np.empty((), dtype=object)
        arr[()] = x
        self._register(name, arr)
        self._free_sampler([next(iter(x.re.vars()))])
        return x

    def complex(self, name):
        x = core.symc(name)
        arr = np.empty((), dtype=object)
        arr[()] = x
        self._register(name, arr)
        self._free_sampler([next(iter(x.re.vars())), next(iter(x.im.vars()))])
        return x

    def _free_sampler(self, ids):
        def sampler(rng, env, ids=ids):
            for i in ids:
                env[i] = rng.gauss(0, 1)

        core.CTX.samplers.append(sampler)

    def assume(self, f):
        core.CTX.assume.append(f)

    def get_draws(self):
        """sampler log of this path: list of dicts(site, p (list of SC), k, vals)"""
        return list(self.EXP.draws)

    def nonneg(self, x):
        """condition `x is real and >= 0` for a scalar"""
        x = core.SC.lift(x)
        c = x >= 0
        if x.im.t:
            return core.mk_bool(core.f_and(core.lift_bool(c), core.f_cmp(x.im, "==")))
        return c

    def positive(self, x):
        x = core.SC.lift(x)
        return x > 0

    # ---- conversions -------------------------------------------------------------
    def np(self, arr):
        if isinstance(arr, self.jnp.ndarray):
            return arr._v
        if isinstance(arr, np.ndarray) and arr.dtype == object:
            return arr
        return self.jnp.asarray(arr)._v

    def like(self):
        return np.empty((0,), dtype=object)

    def const_array(self, a):
        return self.jnp.array(a)

    def pol_label_vector(self, lab):
        from .core import SC, ZERO, ONE, sqrt_fraction

        h = sqrt_fraction(Fraction(1, 2))
        v = {"H": [SC(ONE), SC(ZERO)], "V": [SC(ZERO), SC(ONE)], "R": [SC(h), SC(ZERO, h)],
             "L": [SC(h), SC(ZERO, -h)]}[lab]
        out = np.empty((2, 1), dtype=object)
        out[0, 0], out[1, 0] = v
        return out

    def cos_sin(self, x):
        """(cos x, sin x) of a symbolic real scalar as SC"""
        c, s = core.cos_sin(core.SC.lift(x).re)
        return core.SC(c), core.SC(s)

    def sqrt_int(self, n):
        return core.SC(core.sqrt_fraction(Fraction(n)))

    # ---- checks --------------------------------------------------------------------
    kind_filter = None  # when set: only obligations of these kinds are asserted (used by C07)

    def _skip(self, kind):
        return self.kind_filter is not None and kind not in self.kind_filter

    def require_zero(self, diffs, label, kind="identity", detail=None):
        if self._skip(kind):
            return True
        flat = []
        for d in diffs:
            if isinstance(d, np.ndarray):
                flat.extend(d.flatten())
            else:
                flat.append(d)
        flat = [core.SC.lift(x) for x in flat]
        return self.EXP.require_zero(flat, label, kind, detail)

    def _strip_common(self, arr):
        """arr (object array of SC) = lam * A with lam a monomial in definitional (inverse / sqrt) variables that
        occurs in every monomial of every entry; returns (lam as Poly, A) - lam may be 1"""
        from .core import ONE, Poly, SC

        ctx = core.CTX
        common = None
        for x in arr.flatten():
            for p in (x.re, x.im):
                for m in p.t:
                    d = {v: e for v, e in m if ctx.kind[v] in ("inv", "sqrt")}
                    if common is None:
                        common = d
                    else:
                        common = {v: min(e, d[v]) for v, e in common.items() if v in d}
                    if not common:
                        break
        if not common:
            return ONE, arr
        lam = Poly({tuple(sorted(common.items())): 1})

        def div(p):
            out = {}
            for m, c in p.t.items():
                dd = dict(m)
                for v, e in common.items():
                    if dd[v] == e:
                        del dd[v]
                    else:
                        dd[v] -= e
                out[tuple(sorted(dd.items()))] = c
            return Poly(out)

        A = np.empty(arr.shape, dtype=object)
        for idx in np.ndindex(arr.shape):
            A[idx] = SC(div(arr[idx].re), div(arr[idx].im))
        return lam, A

    def require_equal_normalised(self, rho1, E, label, kind="state-map"):
        """claim: rho1 == E / tr(E)  (E unnormalised reference, rho1 the implementation's density matrix).
        Fast path: rho1 = lam*A with a common scalar factor; A == E entrywise and lam*tr(E) == 1.  Only if that
        does not close syntactically the solver is asked about the (small) residues A - E, a model is checked
        numerically against the real claim, and as a last resort the cross-multiplied identity is built."""
        from . import ref

        if self._skip(kind):
            return True
        lam, A = self._strip_common(rho1)
        trE = ref.trace(E)
        res = [a - e for a, e in zip(A.flatten(), E.flatten())]
        if all(r.is_zero() for r in res):
            ok1 = self.EXP.require_zero(res, label, kind)
            ok2 = self.EXP.require_zero([core.SC(lam) * trE - core.SC(core.ONE)], label + " [normalisation factor]", kind)
            return ok1 and ok2

        def claim_violated(env):
            tr = trE.eval(env)
            if abs(tr) < 1e-12:
                return False
            for a, e in zip(rho1.flatten(), E.flatten()):
                if abs(a.eval(env) - e.eval(env) / tr) > 1e-7:
                    return True
            return False

        return self.EXP.require_zero_guided(res, claim_violated,
                                            lambda: [x * trE - e for x, e in zip(rho1.flatten(), E.flatten())],
                                            label, kind)

    def require_parallel(self, v, w, label, kind="state-map", same_norm=False):
        """claim: vector v equals w up to a complex scalar (global phase / normalisation): v_i w_j == v_j w_i.
        Fast path as in require_equal_normalised: v = lam*a with a == w."""
        if self._skip(kind):
            return True
        lam, a = self._strip_common(v)
        vf, wf, af = list(v.flatten()), list(w.flatten()), list(a.flatten())
        res = [x - y for x, y in zip(af, wf)]
        if all(r.is_zero() for r in res):
            ok = self.EXP.require_zero(res, label, kind)
            if same_norm:
                n1 = core.ZERO
                for x in vf:
                    n1 = n1 + x.abs2()
                n2 = core.ZERO
                for x in wf:
                    n2 = n2 + x.abs2()
                ok = self.EXP.require_zero([core.SC(n1 - n2)], label + " [norm]", kind) and ok
            return ok

        def cross():
            out = []
            n = len(vf)
            for i in range(n):
                for j in range(i + 1, n):
                    out.append(vf[i] * wf[j] - vf[j] * wf[i])
            if same_norm:
                n1 = core.ZERO
                for x in vf:
                    n1 = n1 + x.abs2()
                n2 = core.ZERO
                for x in wf:
                    n2 = n2 + x.abs2()
                out.append(core.SC(n1 - n2))
            return out

        def claim_violated(env):
            ve = [x.eval(env) for x in vf]
            we = [x.eval(env) for x in wf]
            n = len(ve)
            for i in range(n):
                for j in range(i + 1, n):
                    if abs(ve[i] * we[j] - ve[j] * we[i]) > 1e-7:
                        return True
            if same_norm and abs(sum(abs(x) ** 2 for x in ve) - sum(abs(x) ** 2 for x in we)) > 1e-7:
                return True
            return False

        return self.EXP.require_zero_guided(res, claim_violated, cross, label, kind)

    def require(self, cond, label, kind="assert", detail=None):
        """cond: python bool / SymBool / shim 0-d array"""
        if self._skip(kind):
            return True
        f = core.lift_bool(cond)
        return self.EXP.require(f, label, kind, detail)

    def require_structural(self, ok, label, detail=None):
        """a discrete assertion (no symbols involved); still goes through the obligation counter"""
        if self._skip("structural"):
            return True
        return self.EXP.require(bool(ok), label, "structural", detail)

    def is_zero_formula(self, x):
        x = core.SC.lift(x)
        return core.f_and(core.f_cmp(x.re, "=="), core.f_cmp(x.im, "=="))

    def formula(self, cond):
        return core.lift_bool(cond)


class RealBackend:
    """replay backend: real jax; inputs from a counterexample; checks are numeric"""

    mode = "real"
    TOL = 1e-7

    def __init__(self, inputs, choices=None):
        import jax
        import jax.numpy as jnp

        jax.config.update("jax_enable_x64", True)
        self.jnp = jnp
        self.inputs = inputs
        self.failures = []
        self.checked = 0
        self.draws = []
        self.choices = list(choices or [])
        self._install_sampler(jax)

    def _install_sampler(self, jax):
        B = self

        def choice(key, a, shape=(), replace=True, p=None, axis=0):
            a_np = np.asarray(a)
            vals = list(range(int(a_np))) if a_np.ndim == 0 else [int(x) for x in a_np.flatten()]
            pl = None if p is None else [complex(x) for x in np.asarray(p).flatten()]
            kr = np.asarray(key).tolist() if not hasattr(key, "term") else key.term
            tw = getattr(B, "_twin", None)
            if tw is not None and str(kr) in tw:
                k = tw[str(kr)]
            elif B.choices:
                k = B.choices.pop(0)
            else:
                k = 0
            B.draws.append({"key": kr, "p": pl,
                            "k": k, "vals": vals})
            return B.jnp.array(vals[min(k, len(vals) - 1)])

        jax.random.choice = choice

    def begin_twin(self, outcomes):
        self._twin = dict(outcomes)

    def end_twin(self):
        self._twin = None

    def _get(self, name):
        v = self.inputs[name]
        arr = (np.array(v["re"]) + 1j * np.array(v["im"])).reshape(v["shape"])
        return arr

    def vector(self, name, d):
        a = self._get(name).reshape(d, 1)
        n = np.linalg.norm(a)
        if n > 0 and abs(n - 1) > 1e-9:  # keep the model's exact (dyadic) values when it is already normalised
            a = a / n
        return self.jnp.array(a)

    def density(self, name, d, param="herm"):
        a = self._get(name).reshape(d, d)
        a = (a + a.conj().T) / 2
        if abs(np.trace(a) - 1) > 1e-9:
            a = a / np.trace(a)
        return self.jnp.array(a)

    def operator(self, name, rows, cols=None, numpy_array=False):
        a = self._get(name).reshape(rows, rows if cols is None else cols)
        return np.array(a) if numpy_array else self.jnp.array(a)

    def angle(self, name, m=1):
        return float(self.inputs[name]["angle"])

    def real(self, name):
        return float(self._get(name).reshape(()).real)

    def complex(self, name):
        return complex(self._get(name).reshape(()))

    def assume(self, f):
        pass

    def get_draws(self):
        return list(self.draws)

    def nonneg(self, x):
        z = complex(x)
        return z.real >= -1e-9 and abs(z.imag) <= 1e-9 and z == z

    def positive(self, x):
        z = complex(x)
        return z.real > 1e-12

    def np(self, arr):
        return np.asarray(arr, dtype=complex)

    def like(self):
        return np.zeros((0,), dtype=complex)

    def const_array(self, a):
        return self.jnp.array(a)

    def pol_label_vector(self, lab):
        h = 1 / math.sqrt(2)
        return np.array({"H": [1, 0], "V": [0, 1], "R": [h, 1j * h], "L": [h, -1j * h]}[lab], dtype=complex).reshape(2, 1)

    def cos_sin(self, x):
        return math.cos(x), math.sin(x)

    def sqrt_int(self, n):
        return math.sqrt(n)

    kind_filter = None

    def _skip(self, kind):
        return self.kind_filter is not None and kind not in self.kind_filter

    def require_zero(self, diffs, label, kind="identity", detail=None):
        if self._skip(kind):
            return True
        m = 0.0
        for d in diffs:
            a = np.asarray(d, dtype=complex)
            if a.size:
                if not np.all(np.isfinite(a)):
                    m = float("inf")
                else:
                    m = max(m, float(np.max(np.abs(a))))
        self.checked += 1
        if not (m <= self.TOL):
            self.failures.append({"label": label, "kind": kind, "max_abs_diff": m})
            return False
        return True

    def require_equal_normalised(self, rho1, E, label, kind="state-map"):
        if self._skip(kind):
            return True
        E = np.asarray(E, dtype=complex)
        tr = np.trace(E)
        if abs(tr) < 1e-14:
            return self.require(False, label + " [reference has zero trace]", kind)
        return self.require_zero([np.asarray(rho1, dtype=complex) - E / tr], label, kind)

    def require_parallel(self, v, w, label, kind="state-map", same_norm=False):
        if self._skip(kind):
            return True
        v = np.asarray(v, dtype=complex).reshape(-1)
        w = np.asarray(w, dtype=complex).reshape(-1)
        cross = np.outer(v, w) - np.outer(w, v)
        diffs = [cross]
        if same_norm:
            diffs.append(np.array([np.vdot(v, v) - np.vdot(w, w)]))
        return self.require_zero(diffs, label, kind)

    def require(self, cond, label, kind="assert", detail=None):
        if self._skip(kind):
            return True
        self.checked += 1
        ok = bool(cond)
        if not ok:
            self.failures.append({"label": label, "kind": kind})
        return ok

    def require_structural(self, ok, label, detail=None):
        return self.require(ok, label, "structural", detail)
