"""Replay of counterexamples / witnesses against the real build (real JAX, /repo as it is now).

  python -m symx.replay <replay.json>          -> prints REPRODUCED / NOT-REPRODUCED, exit 0 / 4
  python -m symx.replay --batch <batch.json>   -> prints BATCH-RESULT <json list>
"""
import importlib
import json
import os
import sys
import traceback

import numpy as np


def run_item(pid, item):
    from symx import backend, explore, world

    mod = importlib.import_module(f"harness.{pid}")
    B = backend.RealBackend(item.get("inputs") or {}, item.get("choices") or [])
    B.observed = {}
    B.kind_filter = getattr(mod, "KIND_FILTER", None)
    res = {"reproduced": False, "failures": [], "exception": None}
    try:
        mod.scenario(B, item["case"])
    except explore.Cut:
        pass  # the scenario ends this path deliberately; obligations recorded before the cut stand
    except world.WFError as e:
        res["exception"] = f"WFError: {e}"
        B.failures.append({"label": "well-formedness", "kind": "wf", "error": str(e)})
    except Exception as e:
        res["exception"] = f"{type(e).__name__}: {str(e)[:300]}"
        res["trace"] = traceback.format_exc()[-1200:]
        B.failures.append({"label": "unexpected exception", "kind": "exception", "error": res["exception"]})
    res["failures"] = B.failures[:8]
    res["checked"] = B.checked
    want_label = item.get("label")
    if B.failures:
        res["reproduced"] = True
        res["same_label"] = any(f.get("label") == want_label for f in B.failures) if want_label else None
    exp = item.get("expect_observed")
    if exp is not None:
        if res["exception"] is not None:
            res["observed_match"] = None
        else:
            ok, detail = True, None
            for k, v in exp.items():
                if k not in B.observed:
                    ok, detail = False, f"observable {k} missing in the real run"
                    break
                a = np.asarray(B.observed[k], dtype=complex).reshape(-1)
                b = (np.array(v["re"]) + 1j * np.array(v["im"])).reshape(-1)
                if a.shape != b.shape:
                    ok, detail = False, f"observable {k}: shape {a.shape} vs {b.shape}"
                    break
                err = float(np.max(np.abs(a - b))) if a.size else 0.0
                if not (err <= 1e-6 * max(1.0, float(np.max(np.abs(b))) if b.size else 1.0)):
                    ok, detail = False, f"observable {k}: max abs difference {err:.3e}"
                    break
            res["observed_match"] = ok
            res["observed_detail"] = detail
    return res


def main(argv):
    here = os.path.dirname(os.path.dirname(os.path.abspath(__file__)))
    repo = os.environ.get("PW_REPO", "/repo")
    for p in (repo, here):
        if p not in sys.path:
            sys.path.insert(0, p)
    if argv and argv[0] == "--batch":
        data = json.load(open(argv[1]))
        out = []
        for item in data["items"]:
            try:
                out.append(run_item(data["property"], item))
            except BaseException as e:
                out.append({"reproduced": False, "error": f"{type(e).__name__}: {e}", "trace": traceback.format_exc()[-800:]})
        print("BATCH-RESULT " + json.dumps(out))
        return 0
    data = json.load(open(argv[0]))
    res = run_item(data["property"], data)
    print(json.dumps(res, indent=1))
    if res["reproduced"]:
        print(f"REPRODUCED property={data['property']} label={data.get('label')}")
        return 0
    print("NOT-REPRODUCED")
    return 4


if __name__ == "__main__":
    sys.exit(main(sys.argv[1:]))
