"""Worlds: object graphs built through photon_weave's public API and filled with symbolic (or, for
replay, concrete) contents; snapshots; joint-state reconstruction from the object graph.

A world spec is JSON-able:
  {"subs": [{"name": "f0", "type": "fock", "dim": 2, "env": "e0"},
            {"name": "p0", "type": "pol", "env": "e0"},
            {"name": "c0", "type": "custom", "dim": 2}],
   "composites": [["e0", "c0"]],           # constructor arguments (envelope / custom names)
   "blocks": [{"kind": "env", "env": "e0", "order": "FP", "level": "V"},
              {"kind": "ps", "ce": 0, "members": ["p0", "c0"], "level": "M"},
              {"kind": "own", "sub": "f1", "level": "L", "label": 1}],
   "contraction": false}
Subsystems not mentioned in a block stay in their initial label state (|0>, |H>).
"""
from __future__ import annotations

import numpy as np

from . import ref

LEVELS = {"L": 0, "V": 1, "M": 2}


def pw():
    """photon_weave handles (imported lazily so that the right `jax` is already on sys.path)"""
    import photon_weave.state.composite_envelope as ce_mod
    from photon_weave.photon_weave import Config
    from photon_weave.state.composite_envelope import CompositeEnvelope, ProductState
    from photon_weave.state.custom_state import CustomState
    from photon_weave.state.envelope import Envelope
    from photon_weave.state.expansion_levels import ExpansionLevel
    from photon_weave.state.fock import Fock
    from photon_weave.state.polarization import Polarization, PolarizationLabel

    class H:
        pass

    h = H()
    h.ce_mod = ce_mod
    h.Config, h.CompositeEnvelope, h.ProductState, h.CustomState = Config, CompositeEnvelope, ProductState, CustomState
    h.Envelope, h.ExpansionLevel, h.Fock, h.Polarization, h.PolarizationLabel = (
        Envelope, ExpansionLevel, Fock, Polarization, PolarizationLabel)
    return h


def concrete_density(d, kind="mixed"):
    """a fixed, genuinely mixed, complex, non-diagonal density matrix of dimension d (deterministic numbers)"""
    A = np.zeros((d, d), dtype=complex)
    for i in range(d):
        for j in range(d):
            A[i, j] = ((i + 2 * j + 1) % 5) / 4.0 + 1j * (((2 * i + j) % 3) - 1) / 2.0
    A[0, 0] += 1.0
    R = A @ A.conj().T
    if kind == "pure":
        R = np.outer(A[:, 0], A[:, 0].conj())
    if kind == "rank2":
        w, U = np.linalg.eigh(R)
        R = w[-1] * np.outer(U[:, -1], U[:, -1].conj()) + w[-2] * np.outer(U[:, -2], U[:, -2].conj())
    return R / np.trace(R).real


def reset_library_state(contraction=False, seed=None):
    """process-global state of the library that must not leak between paths / cases"""
    h = pw()
    h.Config._instance = None
    C = h.Config()
    C.set_contraction(contraction)
    if seed is not None:
        C.set_seed(seed)
    h.CompositeEnvelope._containers.clear()
    h.CompositeEnvelope._instances.clear()
    from photon_weave.operation import CompositeOperationType

    CompositeOperationType.Expression.expected_base_state_types = []
    return C


class World:
    def __init__(self, B, spec):
        self.B = B
        self.spec = spec
        self.h = h = pw()
        self.objs = {}  # name -> subsystem object
        self.envs = {}
        self.ces = []
        self.names = {}  # id(obj) -> name
        reset_library_state(contraction=spec.get("contraction", False), seed=spec.get("seed"))
        for s in spec["subs"]:
            if s["type"] == "custom":
                o = h.CustomState(s["dim"])
                self.objs[s["name"]] = o
            else:
                en = s["env"]
                if en not in self.envs:
                    self.envs[en] = h.Envelope()
                e = self.envs[en]
                if s["type"] == "fock":
                    o = e.fock
                    o.dimensions = s["dim"]
                else:
                    o = e.polarization
                self.objs[s["name"]] = o
            self.names[id(self.objs[s["name"]])] = s["name"]
        for members in spec.get("composites", []):
            args = [self.envs[m] if m in self.envs else self.objs[m] for m in members]
            self.ces.append(h.CompositeEnvelope(*args))
        for i, b in enumerate(spec.get("blocks", [])):
            self._build_block(i, b)

    # -- construction ---------------------------------------------------------
    def sub(self, name):
        return self.objs[name]

    def dim(self, name):
        return int(self.objs[name].dimensions)

    def _build_block(self, i, b):
        h, B = self.h, self.B
        lvl = LEVELS[b["level"]]
        if b["kind"] == "own":
            o = self.objs[b["sub"]]
            if lvl == 0:
                lab = b.get("label", 0)
                if isinstance(o, h.Polarization):
                    o.state = getattr(h.PolarizationLabel, lab) if isinstance(lab, str) else lab
                else:
                    o.state = int(lab)
                return
            for _ in range(lvl):
                o.expand()
            d = int(o.dimensions)
            if lvl == 1:
                _expect_shape(o.state, (d, 1), f"own block {b['sub']}")
                o.state = (B.operator(f"b{i}", d, 1) if b.get("free") else B.vector(f"b{i}", d))
            else:
                _expect_shape(o.state, (d, d), f"own block {b['sub']}")
                o.state = (B.operator(f"b{i}", d, d) if b.get("free") else B.density(f"b{i}", d, b.get("param", getattr(B, "default_param", "herm"))))
        elif b["kind"] == "env":
            e = self.envs[b["env"]]
            e.combine()
            if b.get("order", "FP") == "PF":
                e.reorder(e.polarization, e.fock)
            if lvl == 2:
                e.expand()
            d = int(e.fock.dimensions) * 2
            if lvl == 1:
                _expect_shape(e.state, (d, 1), f"envelope block {b['env']}")
                e.state = (B.operator(f"b{i}", d, 1) if b.get("free") else B.vector(f"b{i}", d))
            else:
                _expect_shape(e.state, (d, d), f"envelope block {b['env']}")
                if b.get("concrete"):
                    e.state = B.jnp.array(concrete_density(d, b["concrete"]))
                else:
                    e.state = (B.operator(f"b{i}", d, d) if b.get("free") else B.density(f"b{i}", d, b.get("param", getattr(B, "default_param", "herm"))))
        elif b["kind"] == "ps":
            ce = self.ces[b.get("ce", 0)]
            members = [self.objs[m] for m in b["members"]]
            ce.combine(*members)
            ps = self.product_state_of(members[0])
            if [id(x) for x in ps.state_objs] != [id(x) for x in members]:
                ps.reorder(*members)
            if lvl == 2:
                ps.expand()
            d = 1
            for m in members:
                d *= int(m.dimensions)
            if lvl == 2 or ps.expansion_level == h.ExpansionLevel.Matrix:
                _expect_shape(ps.state, (d, d), f"product state {b['members']}")
                if b.get("concrete"):
                    ps.state = B.jnp.array(concrete_density(d, b["concrete"]))
                else:
                    ps.state = (B.operator(f"b{i}", d, d) if b.get("free") else B.density(f"b{i}", d, b.get("param", getattr(B, "default_param", "herm"))))
            else:
                _expect_shape(ps.state, (d, 1), f"product state {b['members']}")
                ps.state = (B.operator(f"b{i}", d, 1) if b.get("free") else B.vector(f"b{i}", d))
        else:
            raise ValueError(b["kind"])

    def product_state_of(self, obj):
        for ce in self.ces:
            for ps in ce.states:
                if any(x is obj for x in ps.state_objs):
                    return ps
        raise LookupError("subsystem is in no product state")

    # -- observation ------------------------------------------------------------
    def all_subs(self):
        return [self.objs[s["name"]] for s in self.spec["subs"]]

    def name_of(self, obj):
        return self.names.get(id(obj), "?")

    def snapshot(self):
        """partition of the live subsystems into storage blocks, read from the object graph.
        Returns Snapshot; raises WFError when the graph is inconsistent (index pointing nowhere ...)."""
        return Snapshot(self)


class WFError(Exception):
    """the object graph violates the structural well-formedness predicate"""

    _symx_expected = False


def _expect_shape(arr, shape, what):
    if arr is None or tuple(arr.shape) != tuple(shape):
        raise WFError(f"{what}: array shape {None if arr is None else tuple(arr.shape)} != {tuple(shape)}")


class Block:
    __slots__ = ("members", "level", "array", "holder", "kind", "dims")

    def __init__(self, members, level, array, holder, kind, dims):
        self.members = members
        self.level = level
        self.array = array
        self.holder = holder
        self.kind = kind
        self.dims = dims


class Snapshot:
    def __init__(self, W: World):
        h = W.h
        self.W = W
        self.blocks = []
        self.retired = []
        seen = set()
        for o in W.all_subs():
            if id(o) in seen:
                continue
            if getattr(o, "measured", False):
                self.retired.append(o)
                seen.add(id(o))
                continue
            idx = o.index
            if idx is None:
                if o.state is None:
                    raise WFError(f"{W.name_of(o)}: index None but holds no state")
                lvl = o.expansion_level
                self.blocks.append(Block([o], lvl, o.state, o, "own", [int(o.dimensions)]))
                seen.add(id(o))
            elif isinstance(idx, int) and not isinstance(idx, bool):
                e = o.envelope
                if e is None or e.state is None:
                    raise WFError(f"{W.name_of(o)}: index {idx} but its envelope holds no state")
                fi, pi = e.fock.index, e.polarization.index
                if sorted([fi, pi]) != [0, 1] if isinstance(fi, int) and isinstance(pi, int) else True:
                    raise WFError(f"envelope members have indices {fi!r}, {pi!r}")
                mem = [None, None]
                mem[fi] = e.fock
                mem[pi] = e.polarization
                self.blocks.append(Block(mem, e.expansion_level, e.state, e, "env", [int(m.dimensions) for m in mem]))
                seen.add(id(e.fock))
                seen.add(id(e.polarization))
            elif isinstance(idx, (tuple, list)) and len(idx) == 2:
                ce = o.composite_envelope
                if ce is None:
                    raise WFError(f"{W.name_of(o)}: index {idx} but no composite envelope")
                states = ce.states
                if not (0 <= idx[0] < len(states)):
                    raise WFError(f"{W.name_of(o)}: index {idx} points outside the {len(states)} product spaces")
                ps = states[idx[0]]
                if not (0 <= idx[1] < len(ps.state_objs)) or ps.state_objs[idx[1]] is not o:
                    raise WFError(f"{W.name_of(o)}: index {idx} does not name its position "
                                  f"({[W.name_of(x) for x in ps.state_objs]})")
                mem = list(ps.state_objs)
                for m in mem:
                    if id(m) in seen:
                        raise WFError(f"{W.name_of(m)} stored in two places")
                    seen.add(id(m))
                self.blocks.append(Block(mem, ps.expansion_level, ps.state, ps, "ps", [int(m.dimensions) for m in mem]))
            else:
                raise WFError(f"{W.name_of(o)}: malformed index {idx!r}")

    def partition(self):
        return [tuple(self.W.name_of(m) for m in b.members) for b in self.blocks]

    def block_of(self, obj):
        for b in self.blocks:
            if any(m is obj for m in b.members):
                return b
        return None

    def live(self):
        return [m for b in self.blocks for m in b.members]

    def block_rho(self, b: Block):
        """density matrix of one block as a numpy array (object / complex)"""
        return block_density(self.W, b)

    def is_pure_level(self, subs):
        want = {id(s) for s in subs}
        EL = self.W.h.ExpansionLevel
        return all(b.level in (EL.Label, EL.Vector) for b in self.blocks if any(id(m) in want for m in b.members))

    def joint_vector(self, subs):
        """joint state vector of the listed subsystems (a union of pure-level blocks), in that order"""
        want = [id(s) for s in subs]
        blocks = [b for b in self.blocks if any(id(m) in want for m in b.members)]
        mem = [m for b in blocks for m in b.members]
        if sorted(id(m) for m in mem) != sorted(want):
            raise ValueError("joint_vector(): subsystems must be a union of storage blocks")
        psi = None
        for b in blocks:
            v = block_vector(self.W, b)
            psi = v if psi is None else ref.kron_vec(psi, v)
        dims = [int(d) for b in blocks for d in b.dims]
        perm = [[id(m) for m in mem].index(w) for w in want]
        if perm != list(range(len(perm))):
            psi, dims = ref.permute_vec(psi, dims, perm)
        return psi, dims

    def joint(self, subs):
        """joint density matrix of the listed live subsystems (which must be a union of blocks), in that order"""
        want = [id(s) for s in subs]
        blocks = [b for b in self.blocks if any(id(m) in want for m in b.members)]
        mem = [m for b in blocks for m in b.members]
        if sorted(id(m) for m in mem) != sorted(want):
            raise ValueError("joint(): subsystems must be a union of storage blocks")
        rho = None
        for b in blocks:
            r = self.block_rho(b)
            rho = r if rho is None else ref.kron(rho, r)
        dims = [int(d) for b in blocks for d in b.dims]
        perm = [[id(m) for m in mem].index(w) for w in want]
        if perm != list(range(len(perm))):
            rho, dims = ref.permute(rho, dims, perm)
        return rho, dims


def block_vector(W: World, b: Block):
    """state vector of a pure-level (Label / Vector) block"""
    h, B = W.h, W.B
    EL = h.ExpansionLevel
    D = 1
    for d in b.dims:
        D *= d
    if b.level == EL.Label:
        o = b.members[0]
        st = b.array
        if isinstance(o, h.Polarization):
            if not isinstance(st, h.PolarizationLabel):
                raise WFError(f"{W.name_of(o)}: level Label but state is {type(st).__name__}")
            return B.pol_label_vector(st.value)
        if isinstance(st, bool) or not isinstance(st, (int, np.integer)):
            raise WFError(f"{W.name_of(o)}: level Label but state is {type(st).__name__}")
        d = b.dims[0]
        if d > 0 and not (0 <= st < d):
            raise WFError(f"{W.name_of(o)}: label {st} outside dimension {d}")
        return ref.ket(int(st), d if d > 0 else st + 1, B.like())
    arr = B.np(b.array)
    if b.level != EL.Vector or arr.shape != (D, 1):
        raise WFError(f"block {[W.name_of(m) for m in b.members]}: level {b.level!r}, shape {arr.shape}, expected {(D, 1)}")
    return arr


def block_density(W: World, b: Block):
    h, B = W.h, W.B
    EL = h.ExpansionLevel
    D = 1
    for d in b.dims:
        D *= d
    if b.level == EL.Label or b.level == 0 and b.kind == "own":
        o = b.members[0]
        st = b.array
        like = B.like()
        if isinstance(o, h.Polarization):
            if not isinstance(st, h.PolarizationLabel):
                raise WFError(f"{W.name_of(o)}: level Label but state is {type(st).__name__}")
            psi = B.pol_label_vector(st.value)
            return ref.outer(psi)
        if isinstance(st, bool) or not isinstance(st, (int, np.integer)):
            raise WFError(f"{W.name_of(o)}: level Label but state is {type(st).__name__}")
        d = b.dims[0]
        if d > 0 and not (0 <= st < d):
            raise WFError(f"{W.name_of(o)}: label {st} outside dimension {d}")
        if d <= 0:
            d = st + 1
        return ref.outer(ref.ket(int(st), d, like))
    arr = B.np(b.array)
    if b.level == EL.Vector:
        if arr.shape != (D, 1):
            raise WFError(f"block {[W.name_of(m) for m in b.members]}: level Vector but shape {arr.shape} != {(D, 1)}")
        return ref.outer(arr)
    if b.level == EL.Matrix:
        if arr.shape != (D, D):
            raise WFError(f"block {[W.name_of(m) for m in b.members]}: level Matrix but shape {arr.shape} != {(D, D)}")
        return arr
    raise WFError(f"block {[W.name_of(m) for m in b.members]}: expansion level {b.level!r}")


def components(pre: Snapshot, post: Snapshot, force_together=()):
    """finest common coarsening of the two partitions (over subsystems live in both), as lists of objects;
    subsystems in `force_together` end up in one component"""
    live_pre = {id(m): m for m in pre.live()}
    live_post = {id(m): m for m in post.live()}
    both = [m for i, m in live_pre.items() if i in live_post]
    parent = {id(m): id(m) for m in list(live_pre.values()) + list(live_post.values())}

    def find(x):
        while parent[x] != x:
            parent[x] = parent[parent[x]]
            x = parent[x]
        return x

    def union(a, b):
        ra, rb = find(a), find(b)
        if ra != rb:
            parent[ra] = rb

    for snap in (pre, post):
        for b in snap.blocks:
            for m in b.members[1:]:
                union(id(b.members[0]), id(m))
    ft = [m for m in force_together]
    for m in ft[1:]:
        union(id(ft[0]), id(m))
    groups = {}
    allobjs = {**live_pre, **live_post}
    order = [m for m in pre.W.all_subs() if id(m) in allobjs]
    for m in order:
        groups.setdefault(find(id(m)), []).append(m)
    return list(groups.values())
