"""child process: run cvc5 on an SMT-LIB file; prints RESULT {json}.  argv: file timeout_ms want_model varids"""
import json
import sys
from fractions import Fraction


def parse_value(tok):
    tok = tok.strip()
    try:
        if tok.startswith("("):
            inner = tok[1:-1].strip()
            if inner.startswith("-"):
                v = parse_value(inner[1:])
                return None if v is None else -v
            if inner.startswith("/"):
                parts = split_top(inner[1:])
                a, b = parse_value(parts[0]), parse_value(parts[1])
                return None if a is None or b is None else a / b
            return None
        return Fraction(tok)
    except Exception:
        return None


def split_top(s):
    out, depth, cur = [], 0, ""
    for ch in s.strip():
        if ch == "(":
            depth += 1
        if ch == ")":
            depth -= 1
        if ch.isspace() and depth == 0:
            if cur:
                out.append(cur)
                cur = ""
        else:
            cur += ch
    if cur:
        out.append(cur)
    return out


def main():
    try:
        import resource

        resource.setrlimit(resource.RLIMIT_AS, (4 * 2**30, 4 * 2**30))
    except Exception:
        pass
    path, tl, want_model, vs = sys.argv[1], sys.argv[2], sys.argv[3] == "1", sys.argv[4]
    # never outlive the query: die with the parent (PR_SET_PDEATHSIG) and after the time limit plus a margin (SIGALRM's
    # default action ends the process even inside the solver's C++ code, whose own time limit is not reliable)
    import signal

    try:
        import ctypes

        ctypes.CDLL("libc.so.6").prctl(1, signal.SIGKILL)
    except Exception:
        pass
    signal.alarm(int(int(tl) / 1000) + 10)
    try:
        import cvc5
    except Exception:
        print("RESULT " + json.dumps({"verdict": "unavailable"}))
        return
    text = open(path).read()
    slv = cvc5.Solver()
    slv.setOption("tlimit-per", tl)
    parser = cvc5.InputParser(slv)
    parser.setStringInput(cvc5.InputLanguage.SMT_LIB_2_6, text, "q")
    sm = parser.getSymbolManager()
    verdict = "unknown"
    while True:
        cmd = parser.nextCommand()
        if cmd.isNull():
            break
        o = str(cmd.invoke(slv, sm)).strip()
        if o in ("sat", "unsat", "unknown"):
            verdict = o
    model = None
    if verdict == "sat" and want_model and vs:
        model = {}
        names = " ".join("v" + v for v in vs.split(","))
        p2 = cvc5.InputParser(slv, sm)
        p2.setStringInput(cvc5.InputLanguage.SMT_LIB_2_6, f"(get-value ({names}))", "g")
        o2 = str(p2.nextCommand().invoke(slv, sm)).strip()
        # ((v0 1.0) (v1 (/ 1 2)) ...)
        inner = o2[1:-1].strip()
        for item in split_top(inner):
            it = item[1:-1].strip()
            name, val = it.split(None, 1)
            pv = parse_value(val)
            if pv is None:
                model = None
                break
            model[name[1:]] = str(pv)
    print("RESULT " + json.dumps({"verdict": verdict, "model": model}))


main()
