"""Case runner: explores every structural case of a property symbolically (process pool), replays every
counterexample against the real build, validates witnesses against real JAX, matches known findings,
writes evidence, sets the exit code.

exit 0  property held on everything explored (KNOWN-FINDING lines allowed)
exit 1  VIOLATION property=<id> replay=<path>   (reproduced against the real code, not a known finding)
exit 2  harness error (a counterexample did not reproduce / shim and JAX disagree / internal error)
exit 3  inconclusive (solver unknown without a reproducible counterexample, unsupported construct)
"""
from __future__ import annotations

import fnmatch
import importlib
import json
import multiprocessing as mp
import os
import subprocess
import sys
import time
import traceback

VERIF = os.path.dirname(os.path.dirname(os.path.abspath(__file__)))
REPO = os.environ.get("PW_REPO", "/repo")
SHIM = os.path.join(VERIF, "symx", "jaxshim")
PY = os.path.join("/verif/.venv/bin/python") if os.path.exists("/verif/.venv/bin/python") else sys.executable


def _setup_sym_path():
    for p in (REPO, VERIF, SHIM):
        if p in sys.path:
            sys.path.remove(p)
    sys.path.insert(0, REPO)
    sys.path.insert(0, VERIF)
    sys.path.insert(0, SHIM)


# ---------------------------------------------------------------------------------------------
# worker side
# ---------------------------------------------------------------------------------------------

_TRACE = set()


def _profile(frame, event, arg):
    if event == "call":
        fn = frame.f_code.co_filename
        if "/photon_weave/" in fn:
            _TRACE.add(fn.split("/photon_weave/")[-1][:-3].replace("/", ".") + "." + frame.f_code.co_qualname)


def _patch_library_for_sym():
    """harness-side patches of module globals (no source change)"""
    import builtins

    import photon_weave.state.composite_envelope as cem
    from symx import core

    def _float(x=0.0):
        if hasattr(x, "_v") or isinstance(x, core.SC):
            return x
        return builtins.float(x)

    cem.float = _float


def run_case(args):
    pid, case, opts = args
    _setup_sym_path()
    t0 = time.time()
    out = {"id": case["id"], "paths": 0, "status": {}, "violations": [], "events": [], "flags": [], "errors": [],
           "functions": [], "witness": None, "truncated": False}
    try:
        from symx import backend, core, explore, smt

        mod = importlib.import_module(f"harness.{pid}")
        _patch_library_for_sym()
        smt.reset_stats()
        explore.EXP.tot = explore.EXP._zero_tot()
        explore.EXP.timeout_ms = opts.get("timeout_ms", 10000)
        explore.EXP.seed = opts.get("seed", 0)
        explore.EXP.exact_close = bool(opts.get("exact_close", False))
        if "feas_timeout_ms" in opts:
            explore.EXP.feas_timeout_ms = opts["feas_timeout_ms"]
        explore.EXP.rng.seed(opts.get("seed", 0))
        first = {"done": False}
        witness_box = {}

        stage = {"param": "herm"}

        def fn():
            B = backend.SymBackend()
            B.observed = {}
            B.default_param = stage["param"]
            B.kind_filter = getattr(mod, "KIND_FILTER", None)
            trace = not first["done"]
            first["done"] = True
            if trace:
                _TRACE.clear()
                sys.setprofile(_profile)
            try:
                mod.scenario(B, case)
            finally:
                if trace:
                    sys.setprofile(None)
            # per-path reachability witness (vacuity guard) + numeric image of the observables
            if "w" not in witness_box or opts.get("all_witnesses"):
                r, model = explore.EXP.witness()
                if r == "sat":
                    env_inputs = explore.EXP.concretise(model)
                    obs = {}
                    env = _env_from_model(model)
                    for k, arr in B.observed.items():
                        try:
                            obs[k] = _eval_obs(arr, env)
                        except Exception:
                            pass
                    w = {"inputs": env_inputs, "choices": list(explore.EXP.choices), "observed": obs,
                         "decisions": list(explore.EXP.decisions)}
                    witness_box.setdefault("w", w)
                    witness_box.setdefault("all", []).append(w)
                return r
            return "skipped"

        results, truncated = explore.explore(fn, max_paths=opts.get("max_paths", 200))
        has_matrix = '"level": "M"' in json.dumps(case)
        if not any(r.violations for r in results) and any("nonphysical_model" in r.flags for r in results):
            # the first pass quantifies Matrix-level contents over all unit-trace Hermitian matrices (a superset
            # of the states; sound for "holds").  A counterexample may be non-physical: confirm over rank<=2
            # density matrices (always valid states) and report only what survives.
            out["stage2"] = {"herm_nonphysical_models": sum(1 for r in results for e in r.events if e[0] == "nonphysical_model")}
            stage["param"] = "rank2"
            first["done"] = True
            witness_box.clear()
            results, truncated = explore.explore(fn, max_paths=opts.get("max_paths", 200))
            out["stage2"]["rank2_violations"] = sum(len(r.violations) for r in results)
        out["truncated"] = truncated
        out["paths"] = len(results)
        for r in results:
            out["status"][r.status] = out["status"].get(r.status, 0) + 1
            if r.status in ("unsupported",):
                out["errors"].append({"status": r.status, "error": r.error, "decisions": r.decisions})
            if r.status == "cut":
                out["events"].append(["cut", r.error])
            if r.status == "ok" and r.value == "unsat" and "unknown_feasibility" in r.flags:
                # a branch side taken because its feasibility query timed out turned out to be infeasible: the path does not
                # exist, nothing on it counts (no error - the branch decision, not the harness, produced the empty path)
                out["events"].append(["infeasible_path_after_unknown_branch", str(r.decisions)])
            elif r.status == "ok" and r.value == "unsat":
                out["errors"].append({"status": "vacuous", "error": "path condition unsatisfiable at end of path",
                                      "decisions": r.decisions})
            for ev in r.events:
                out["events"].append([ev[0], ev[1]])
            for fl in r.flags:
                if fl not in out["flags"]:
                    out["flags"].append(fl)
            for v in r.violations:
                out["violations"].append({"label": v.label, "kind": v.kind, "detail": _jsonable(v.detail),
                                          "inputs": getattr(v, "inputs", {}), "choices": getattr(v, "choices", []),
                                          "decisions": r.decisions, "path_status": r.status,
                                          "path_error": r.error if r.status == "exc" else None})
        out["tot"] = dict(explore.EXP.tot)
        out["smt"] = dict(smt.STATS)
        out["functions"] = sorted(_TRACE)
        out["witness"] = witness_box.get("w")
        if opts.get("all_witnesses"):
            out["witnesses"] = witness_box.get("all", [])
    except BaseException as e:  # harness error
        out["errors"].append({"status": "harness_error", "error": f"{type(e).__name__}: {e}",
                              "trace": traceback.format_exc()[-1500:]})
    out["wall_s"] = time.time() - t0
    return out


def _child(pid, case, opts, conn):
    try:
        r = run_case((pid, case, opts))
    except BaseException as e:  # noqa
        r = {"id": case["id"], "paths": 0, "status": {}, "violations": [], "events": [], "flags": [], "functions": [],
             "witness": None, "truncated": False, "wall_s": 0.0,
             "errors": [{"status": "harness_error", "error": f"{type(e).__name__}: {e}"}]}
    try:
        conn.send(r)
    finally:
        conn.close()


def run_cases_parallel(pid, cases, opts, procs, verbose=False):
    """one forked child per structural case (robust against a crashing / runaway solver), at most `procs`
    at a time, each under a hard wall-clock limit"""
    # warm the parent so that children inherit the imported library (z3 is only ever loaded in children)
    try:
        importlib.import_module("photon_weave.state.envelope")
        importlib.import_module("photon_weave.state.custom_state")
        importlib.import_module("photon_weave.operation")
    except Exception:
        pass
    ctx = mp.get_context("fork")
    limit = opts.get("case_timeout_s", 900)
    pending = list(cases)[::-1]
    running = []
    results = []
    while pending or running:
        while pending and len(running) < procs:
            c = pending.pop()
            parent_conn, child_conn = ctx.Pipe(duplex=False)
            p = ctx.Process(target=_child, args=(pid, c, opts, child_conn), daemon=True)
            p.start()
            child_conn.close()
            running.append((p, parent_conn, c, time.time()))
        still = []
        for p, conn, c, t0 in running:
            r = None
            if conn.poll():
                try:
                    r = conn.recv()
                except EOFError:
                    r = None
                    p.join(1)
                if r is None:
                    r = _dead(c, f"worker died (exit code {p.exitcode})", time.time() - t0)
                p.join(5)
            elif not p.is_alive():
                # the child may have sent its result and exited between the two tests above
                if conn.poll(0.5):
                    try:
                        r = conn.recv()
                    except EOFError:
                        r = None
                if r is None:
                    r = _dead(c, f"worker died (exit code {p.exitcode})", time.time() - t0)
            elif time.time() - t0 > limit:
                p.kill()
                p.join(5)
                r = _dead(c, f"case exceeded the wall-clock limit of {limit}s", time.time() - t0, status="unsupported")
            if r is None:
                still.append((p, conn, c, t0))
            else:
                conn.close()
                results.append(r)
                if verbose:
                    print(f"  case {r['id']}: paths={r['paths']} status={r['status']} viol={len(r['violations'])} "
                          f"err={len(r['errors'])} {r['wall_s']:.1f}s", flush=True)
        running = still
        if running:
            time.sleep(0.01)
    return results


def _dead(case, msg, wall, status="harness_error"):
    return {"id": case["id"], "paths": 0, "status": {}, "violations": [], "events": [], "flags": [], "functions": [],
            "witness": None, "truncated": False, "wall_s": wall, "errors": [{"status": status, "error": msg}]}


def _env_from_model(model):
    import math

    from symx import core

    ctx = core.CTX
    env = {}
    for v in range(len(ctx.names)):
        val = (model or {}).get(v)
        if val is None:
            val = 1 if ctx.kind[v] == "cos" else 0
        env[v] = float(val)
    for v in range(len(ctx.names)):
        if model is not None and v in model:
            continue
        try:
            if v in ctx.sqrtdef:
                env[v] = math.sqrt(max(0.0, float(ctx.sqrtdef[v].eval(env))))
            elif v in ctx.invdef:
                env[v] = 1.0 / float(ctx.invdef[v].eval(env))
            elif ctx.kind[v] == "alg":
                env[v] = math.sqrt(float(ctx.rules[v].cval()))
        except Exception:
            pass
    return env


def _eval_obs(arr, env):
    import numpy as np

    from symx import core

    a = np.asarray(arr, dtype=object)
    flat = []
    for x in a.flatten():
        if isinstance(x, core.SC):
            flat.append(x.eval(env))
        else:
            flat.append(complex(x))
    return {"shape": list(a.shape), "re": [z.real for z in flat], "im": [z.imag for z in flat]}


def _jsonable(x):
    try:
        json.dumps(x)
        return x
    except Exception:
        return repr(x)[:500]


# ---------------------------------------------------------------------------------------------
# driver side
# ---------------------------------------------------------------------------------------------


def load_known():
    p = os.path.join(VERIF, "known_findings.json")
    if not os.path.exists(p):
        return []
    return json.load(open(p)).get("findings", [])


def match_known(known, pid, case_id, label, kind):
    for k in known:
        if k.get("property") != pid:
            continue
        if not fnmatch.fnmatch(case_id, k.get("case", "*")):
            continue
        if not fnmatch.fnmatch(label, k.get("label", "*")):
            continue
        if "kind" in k and not fnmatch.fnmatch(kind, k["kind"]):
            continue
        return k
    return None


def replay_batch(pid, items, timeout=900):
    """items: list of {case, inputs, choices, expect_observed?}; runs them under real JAX in one subprocess"""
    if not items:
        return []
    os.makedirs(os.path.join(VERIF, "replays"), exist_ok=True)
    path = os.path.join(VERIF, "replays", f".batch_{pid}_{os.getpid()}_{int(time.time()*1000)%100000}.json")
    json.dump({"property": pid, "items": items}, open(path, "w"))
    env = dict(os.environ)
    env["PYTHONPATH"] = f"{VERIF}:{REPO}"
    env["JAX_PLATFORMS"] = "cpu"
    try:
        p = subprocess.run([PY, "-m", "symx.replay", "--batch", path], cwd=VERIF, env=env, capture_output=True,
                           text=True, timeout=timeout)
        res = None
        for line in p.stdout.splitlines():
            if line.startswith("BATCH-RESULT "):
                res = json.loads(line[len("BATCH-RESULT "):])
        if res is None:
            raise RuntimeError("replay produced no result: " + p.stdout[-800:] + p.stderr[-1500:])
        return res
    finally:
        try:
            os.unlink(path)
        except OSError:
            pass


def run_property(pid, tier="quick", seed=0, only=None, procs=None, verbose=False):
    t0 = time.time()
    _setup_sym_path()
    mod = importlib.import_module(f"harness.{pid}")
    cases = mod.cases(tier)
    if only:
        cases = [c for c in cases if fnmatch.fnmatch(c["id"], only)]
    opts = dict(getattr(mod, "OPTS", {}).get(tier, {}))
    opts.setdefault("seed", seed)
    procs = procs or min(16, os.cpu_count() or 4, max(1, len(cases)))
    results = run_cases_parallel(pid, cases, opts, procs, verbose)
    results.sort(key=lambda r: r["id"])
    if os.environ.get("SYMX_DUMP"):
        json.dump(results, open(os.environ["SYMX_DUMP"], "w"), indent=1, default=str)
    bycase = {c["id"]: c for c in cases}
    known = load_known()

    # ---- replay counterexamples --------------------------------------------------------------
    items = []
    for r in results:
        seen = set()
        for i, v in enumerate(r["violations"]):
            key = (v["label"], v["kind"])
            if key in seen and len([1 for k in seen if k == key]) >= 1 and i > 40:
                continue
            seen.add(key)
            items.append({"case": bycase[r["id"]], "inputs": v["inputs"], "choices": v["choices"],
                          "label": v["label"], "kind": v["kind"], "_case_id": r["id"], "_vi": i})
    # keep replay volume bounded: at most 3 per (case,label,kind)
    cnt = {}
    kept = []
    for it in items:
        k = (it["_case_id"], it["label"], it["kind"])
        cnt[k] = cnt.get(k, 0) + 1
        if cnt[k] <= 3:
            kept.append(it)
    rep = replay_batch(pid, kept) if kept else []
    new_violations, known_hits, unreproduced = [], {}, []
    grouped = {}
    for it, rr in zip(kept, rep):
        k = (it["_case_id"], it["label"], it["kind"])
        grouped.setdefault(k, []).append((it, rr))
    for k, lst in grouped.items():
        reproduced = [(it, rr) for it, rr in lst if rr.get("reproduced")]
        if not reproduced:
            unreproduced.append({"case": k[0], "label": k[1], "kind": k[2], "replay": lst[0][1]})
            continue
        it, rr = reproduced[0]
        kf = match_known(known, pid, k[0], k[1], k[2])
        if kf is not None:
            known_hits.setdefault(kf["id"], {"finding": kf, "cases": []})["cases"].append(k[0])
        else:
            path = os.path.join(VERIF, "replays", f"{pid}_{_safe(k[0])}_{_safe(k[1])[:40]}.json")
            json.dump({"property": pid, "case": it["case"], "inputs": it["inputs"], "choices": it["choices"],
                       "label": k[1], "kind": k[2], "replay_result": rr}, open(path, "w"), indent=1)
            new_violations.append({"case": k[0], "label": k[1], "kind": k[2], "replay": path,
                                   "failures": rr.get("failures", [])[:3]})

    # ---- validate witnesses against the real build ----------------------------------------------
    wit_items = []
    for r in results:
        ws = r.get("witnesses") or ([r["witness"]] if r.get("witness") else [])
        for w in ws[: opts.get("witnesses_per_case", 1)]:
            if w and w.get("observed"):
                wit_items.append({"case": bycase[r["id"]], "inputs": w["inputs"], "choices": w["choices"],
                                  "expect_observed": w["observed"], "_case_id": r["id"]})
    wrep = replay_batch(pid, wit_items) if wit_items and not os.environ.get("SYMX_NO_VALIDATE") else []
    validated = sum(1 for x in wrep if x.get("observed_match") is True)
    # a witness whose run fails a check for a *known* finding is not a shim problem; only disagreement of
    # the observables (same inputs, same outcomes, different numbers) is
    shim_mismatch = [{"case": it["_case_id"], "detail": x.get("observed_detail")} for it, x in zip(wit_items, wrep)
                     if x.get("observed_match") is False]

    # ---- aggregate ----------------------------------------------------------------------------------
    agg = {"paths": 0, "cut": 0, "unsupported": 0, "abort": 0, "exc": 0, "ok": 0}
    tot, smt_tot = {}, {}
    errors, functions, flags, truncated = [], set(), set(), []
    for r in results:
        agg["paths"] += r["paths"]
        for k, v in r["status"].items():
            agg[k] = agg.get(k, 0) + v
        for k, v in (r.get("tot") or {}).items():
            tot[k] = tot.get(k, 0) + v
        for k, v in (r.get("smt") or {}).items():
            smt_tot[k] = smt_tot.get(k, 0) + v
        for e in r["errors"]:
            errors.append({"case": r["id"], **e})
        functions |= set(r.get("functions") or [])
        flags |= set(r["flags"])
        if r["truncated"]:
            truncated.append(r["id"])

    allowed_unsupported = getattr(mod, "ALLOW_UNSUPPORTED", ())
    hard_errors = [e for e in errors if e["status"] in ("harness_error", "vacuous")]
    unsupported = [e for e in errors if e["status"] == "unsupported"
                   and not any(fnmatch.fnmatch(e["case"], pat) for pat in allowed_unsupported)]
    ob_unknown = tot.get("ob_unknown", 0)

    lines = []
    for kid, hit in sorted(known_hits.items()):
        lines.append(f"KNOWN-FINDING: property={pid} {hit['finding']['what']} [{kid}; {len(hit['cases'])} case(s)]")
    for v in new_violations:
        lines.append(f"VIOLATION property={pid} replay={v['replay']}  ({v['case']}: {v['label']})")
    code = 0
    if new_violations:
        code = 1
    elif unreproduced or shim_mismatch or hard_errors:
        code = 2
    elif unsupported or ob_unknown:
        code = 3
    for u in unreproduced[:10]:
        lines.append(f"HARNESS-ERROR property={pid} counterexample did not reproduce: {u['case']} / {u['label']} "
                     f"({json.dumps(u['replay'])[:300]})")
    for m in shim_mismatch[:10]:
        lines.append(f"HARNESS-ERROR property={pid} shim/JAX disagreement on witness: {m['case']} {str(m['detail'])[:300]}")
    for e in hard_errors[:10]:
        lines.append(f"HARNESS-ERROR property={pid} {e['case']}: {e['error']} {e.get('trace', '')[-600:]}")
    for e in unsupported[:10]:
        lines.append(f"INCONCLUSIVE property={pid} {e['case']}: {e['error']}")
    if ob_unknown and not new_violations:
        lines.append(f"INCONCLUSIVE property={pid} {ob_unknown} obligation(s) undecided by the solvers")
    for it, x in zip(wit_items, wrep):
        if x.get("observed_match") is None:
            lines.append(f"NOTE property={pid} witness of {it['_case_id']} could not be compared under real JAX: "
                         f"{str(x.get('exception') or x.get('error'))[:200]}")
    if truncated:
        lines.append(f"NOTE property={pid} path bound reached in {len(truncated)} case(s): {truncated[:5]}")

    wall = time.time() - t0
    samples = []
    for r in results[:3]:
        w = r.get("witness") or {}
        samples.append({"case": bycase[r["id"]], "paths": r["paths"], "path_status": r["status"],
                        "witness_decisions": w.get("decisions"), "obligations": (r.get("tot") or {}).get("obligations")})
    n_ob = tot.get("obligations", 0)
    evidence = {
        "property_id": pid,
        "tier": tier,
        "seed": int(seed),
        "level": "model_checking",
        "coverage": {
            "states": max(1, agg["paths"]),
            "transitions": max(1, tot.get("branches_decided", 0) + tot.get("choices", 0) + agg["paths"]),
            "traces_validated_against_impl": validated,
            "samples": samples or [{"note": "no cases"}],
            "evaluations": max(1, agg["paths"]),
            "distinct_nontrivial": len([r for r in results if r["paths"] > 0]),
            "rule": "one evaluation = one symbolic path (a decision prefix of solver-decided branches and sampler "
                    "outcomes) of one structural case; a case is distinct by its id (layout x target x level x entry "
                    "point x operation) and non-trivial when at least one path completed",
            "obligations": n_ob,
            "discharged": tot.get("trivial_after_simplify", 0) + tot.get("discharged_by_solver", 0),
            "exhaustive": not truncated,
            "structural_cases": len(cases),
            "bounds": getattr(mod, "BOUNDS", {}).get(tier, ""),
            "functions_encoded": sorted(functions),
            "paths": agg,
            "explorer": tot,
            "solver": {k: (round(v, 3) if isinstance(v, float) else v) for k, v in smt_tot.items()},
            "replays": {"counterexamples_replayed": len(kept), "reproduced_new": len(new_violations),
                        "reproduced_known": sum(len(h["cases"]) for h in known_hits.values()),
                        "not_reproduced": len(unreproduced), "witness_traces": len(wit_items),
                        "witness_traces_matching_real_jax": validated},
            "known_findings_hit": sorted(known_hits),
            "truncated_cases": truncated,
            "flags": sorted(flags),
            "cuts": agg.get("cut", 0),
        },
        "assumptions": list(getattr(mod, "ASSUMPTIONS", [])),
        "wall_s": round(wall, 2),
        "violations": len(new_violations),
    }
    evdir = os.environ.get("SYMX_EVIDENCE_DIR") or os.path.join(VERIF, "evidence")
    os.makedirs(evdir, exist_ok=True)
    json.dump(evidence, open(os.path.join(evdir, f"{pid}.json"), "w"), indent=1)
    for ln in lines:
        print(ln)
    print(f"{pid} [{tier}] cases={len(cases)} paths={agg['paths']} (ok={agg.get('ok',0)} cut={agg.get('cut',0)} "
          f"exc={agg.get('exc',0)} abort={agg.get('abort',0)}) obligations={n_ob} "
          f"trivial={tot.get('trivial_after_simplify',0)} solver={tot.get('discharged_by_solver',0)} "
          f"violated={tot.get('violated',0)} unknown={ob_unknown} queries={smt_tot.get('queries',0)} "
          f"solver_s={smt_tot.get('solver_s',0):.1f} validated={validated}/{len(wit_items)} wall={wall:.1f}s exit={code}")
    return code


def _safe(s):
    return "".join(ch if ch.isalnum() or ch in "-_." else "_" for ch in s)
