"""validates MANIFEST.json and every evidence file against the schemas (run with python3-vt)"""
import json, glob, sys
import jsonschema
ok = True
try:
    jsonschema.validate(json.load(open('/verif/MANIFEST.json')), json.load(open('/root/.vp/MANIFEST.schema.json')))
    print('MANIFEST valid')
except Exception as e:
    ok = False; print('MANIFEST INVALID', str(e)[:500])
es = json.load(open('/root/.vp/EVIDENCE.schema.json'))
for f in sorted(glob.glob('/verif/evidence/*.json')):
    try:
        jsonschema.validate(json.load(open(f)), es); print(f, 'valid')
    except Exception as e:
        ok = False; print(f, 'INVALID', str(e)[:500])
sys.exit(0 if ok else 1)
