"""CrossHair condition (engine E2): an unknown head symbol makes the expression interpreter raise."""
import os
import sys

sys.path.insert(0, "/verif/symx/jaxshim")  # the light-weight jax model is enough: no array is touched
sys.path.insert(1, os.environ.get("PW_REPO", "/repo"))
from photon_weave.extra.expression_interpreter import interpreter

COMMANDS = ("add", "sub", "s_mult", "m_mult", "kron", "expm", "div")


def unknown_head_raises(head: str) -> bool:
    """
    pre: len(head) <= 6
    pre: head not in COMMANDS
    post: __return__ == True
    """
    try:
        interpreter((head, 1, 2), {}, [2])
    except ValueError:
        return True
    return False


def reachability_twin(head: str) -> bool:
    """
    pre: len(head) <= 6
    pre: head not in COMMANDS
    post: False
    """
    return True
