"""CrossHair conditions (engine E2) for the einsum string generators of photon_weave.extra.einsum_constructor.

The number of subsystems and the operand positions are SYMBOLIC integers (bounded by the preconditions); each condition
parses the generated specification and compares it with the index pattern the textbook map requires:
  * apply_operator_vector / _matrix: factor k of the operator is contracted with the k-th operand given by the caller and
    writes to that operand's position; every other position is carried over unchanged;
  * reorder_vector / _matrix: output position k carries the letter of the k-th subsystem of the new order (rows and columns);
  * trace_out_matrix: kept subsystems appear in input order with distinct row / column letters, every traced subsystem has
    one letter shared by its row and its column and by nothing else;
  * trace_out_vector / measure_vector / measure_matrix: kept letters in input order.
Subsystems are plain integers here (the generators only use `in`, list order and dictionary keys)."""
import os
import sys
from typing import List

sys.path.insert(0, "/verif/symx/jaxshim")
sys.path.insert(1, os.environ.get("PW_REPO", "/repo"))
import photon_weave.extra.einsum_constructor as ESC


def _parse(spec: str):
    ins, out = spec.split("->")
    return ins.split(","), out


def apply_operator_vector_two(n: int, a: int, b: int) -> bool:
    """
    pre: 2 <= n <= 5
    pre: 0 <= a < n and 0 <= b < n and a != b
    post: __return__ == True
    """
    (op, st), out = _parse(ESC.apply_operator_vector(list(range(n)), [a, b]))
    if len(st) != n + 1 or len(set(st)) != n + 1 or len(op) != 4 or len(out) != n + 1:
        return False
    new = op[:2]
    if len(set(new)) != 2 or any(c in st for c in new):
        return False
    if op[2] != st[a] or op[3] != st[b]:
        return False
    for i in range(n):
        want = new[0] if i == a else (new[1] if i == b else st[i])
        if out[i] != want:
            return False
    return out[n] == st[n]


def apply_operator_vector_one(n: int, a: int) -> bool:
    """
    pre: 1 <= n <= 5
    pre: 0 <= a < n
    post: __return__ == True
    """
    (op, st), out = _parse(ESC.apply_operator_vector(list(range(n)), [a]))
    if len(st) != n + 1 or len(set(st)) != n + 1 or len(op) != 2 or op[0] in st or op[1] != st[a]:
        return False
    for i in range(n):
        if out[i] != (op[0] if i == a else st[i]):
            return False
    return out[n] == st[n]


def apply_operator_matrix_two(n: int, a: int, b: int) -> bool:
    """
    pre: 2 <= n <= 4
    pre: 0 <= a < n and 0 <= b < n and a != b
    post: __return__ == True
    """
    (op, st, oc), out = _parse(ESC.apply_operator_matrix(list(range(n)), [a, b]))
    if len(st) != 2 * n or len(set(st)) != 2 * n or len(op) != 4 or len(oc) != 4 or len(out) != 2 * n:
        return False
    rows, cols = st[:n], st[n:]
    fresh = op[0] + op[1] + oc[0] + oc[1]
    if len(set(fresh)) != 4 or any(c in st for c in fresh):
        return False
    if op[2] != rows[a] or op[3] != rows[b] or oc[2] != cols[a] or oc[3] != cols[b]:
        return False
    for i in range(n):
        wr = op[0] if i == a else (op[1] if i == b else rows[i])
        wc = oc[0] if i == a else (oc[1] if i == b else cols[i])
        if out[i] != wr or out[n + i] != wc:
            return False
    return True


def apply_operator_matrix_one(n: int, a: int) -> bool:
    """
    pre: 1 <= n <= 5
    pre: 0 <= a < n
    post: __return__ == True
    """
    (op, st, oc), out = _parse(ESC.apply_operator_matrix(list(range(n)), [a]))
    if len(st) != 2 * n or len(set(st)) != 2 * n or len(op) != 2 or len(oc) != 2:
        return False
    if op[0] in st or oc[0] in st or op[0] == oc[0] or op[1] != st[a] or oc[1] != st[n + a]:
        return False
    for i in range(n):
        if out[i] != (op[0] if i == a else st[i]) or out[n + i] != (oc[0] if i == a else st[n + i]):
            return False
    return True


def _perm(n: int, code: int) -> List[int]:
    """the code-th permutation of range(n) (factorial number system)"""
    items = list(range(n))
    out = []
    for k in range(n, 0, -1):
        code, r = divmod(code, k)
        out.append(items.pop(r))
    return out


def reorder_vector_ok(n: int, code: int) -> bool:
    """
    pre: 1 <= n <= 4
    pre: 0 <= code < 24
    post: __return__ == True
    """
    new = _perm(n, code)
    (st,), out = _parse(ESC.reorder_vector(list(range(n)), new))
    if len(st) != n + 1 or len(set(st)) != n + 1 or len(out) != n + 1 or out[n] != st[n]:
        return False
    return all(out[k] == st[new[k]] for k in range(n))


def reorder_matrix_ok(n: int, code: int) -> bool:
    """
    pre: 1 <= n <= 4
    pre: 0 <= code < 24
    post: __return__ == True
    """
    new = _perm(n, code)
    (st,), out = _parse(ESC.reorder_matrix(list(range(n)), new))
    if len(st) != 2 * n or len(set(st)) != 2 * n or len(out) != 2 * n:
        return False
    return all(out[k] == st[new[k]] and out[n + k] == st[n + new[k]] for k in range(n))


def trace_out_matrix_ok(n: int, mask: int) -> bool:
    """
    pre: 1 <= n <= 4
    pre: 1 <= mask < 16
    post: __return__ == True
    """
    keep = [i for i in range(n) if (mask >> i) & 1]
    if not keep:
        return True
    (st,), out = _parse(ESC.trace_out_matrix(list(range(n)), keep))
    if len(st) != 2 * n or len(out) != 2 * len(keep):
        return False
    rows, cols = st[:n], st[n:]
    for i in range(n):
        if i in keep:
            if rows[i] == cols[i] or st.count(rows[i]) != 1 or st.count(cols[i]) != 1:
                return False
        else:
            if rows[i] != cols[i] or st.count(rows[i]) != 2:
                return False
    k = len(keep)
    return all(out[j] == rows[keep[j]] and out[k + j] == cols[keep[j]] for j in range(k))


def measure_and_trace_vector_ok(n: int, a: int) -> bool:
    """
    pre: 1 <= n <= 5
    pre: 0 <= a < n
    post: __return__ == True
    """
    for fn in (ESC.measure_vector, ESC.trace_out_vector):
        (st,), out = _parse(fn(list(range(n)), [a]))
        if len(st) != n + 1 or len(set(st)) != n + 1 or out != st[a] + st[n]:
            return False
    (st,), out = _parse(ESC.measure_matrix(list(range(n)), [a]))
    if len(st) != 2 * n or len(set(st)) != 2 * n or out != st[a] + st[n + a]:
        return False
    return True


def reachability_twin(n: int, a: int, b: int) -> bool:
    """
    pre: 2 <= n <= 5
    pre: 0 <= a < n and 0 <= b < n and a != b
    post: False
    """
    return True
