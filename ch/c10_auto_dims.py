"""CrossHair condition (engine E2) for C10: the dimension chosen automatically before a ladder / phase / identity
operation, with a SYMBOLIC highest occupied level n: the space handed to the operator must hold the ideal result -
level n+1 after a creation (dimension >= n+2), level n otherwise (dimension >= n+1)."""
import os
import sys

sys.path.insert(0, "/verif/symx/jaxshim")
sys.path.insert(1, os.environ.get("PW_REPO", "/repo"))
import jax.numpy as jnp
from photon_weave.operation.fock_operation import FockOperationType

_STATE = jnp.array([[1.0], [0.0]])
_TYPES = (FockOperationType.Creation, FockOperationType.Annihilation, FockOperationType.PhaseShift, FockOperationType.Identity)


def auto_dimension_holds_result(n: int, which: int) -> bool:
    """
    pre: 0 <= n <= 100000
    pre: 0 <= which < 4
    post: __return__ == True
    """
    t = _TYPES[which]
    dims = t.compute_dimensions(n, _STATE)
    if not isinstance(dims, list) or len(dims) != 1:
        return False
    need = n + 2 if t is FockOperationType.Creation else n + 1
    return dims[0] >= need


def reachability_twin(n: int, which: int) -> bool:
    """
    pre: 0 <= n <= 100000
    pre: 0 <= which < 4
    post: False
    """
    _TYPES[which].compute_dimensions(n, _STATE)
    return True
