"""CrossHair conditions (engine E2) for C10 at label level: Fock.resize on a number state |n> with SYMBOLIC integers
n (label), d (current cut-off) and the requested dimension.

  * a request below 1 or one that would cut the occupied level (new <= n) is refused: returns a false value, label and
    cut-off untouched;
  * every other request succeeds: returns a true value, cut-off = request, label untouched.
The Fock object is the real class (imported with the light-weight jax model: no array is touched at label level)."""
import os
import sys

sys.path.insert(0, "/verif/symx/jaxshim")
sys.path.insert(1, os.environ.get("PW_REPO", "/repo"))
from photon_weave.state.expansion_levels import ExpansionLevel
from photon_weave.state.fock import Fock


def _fock(n: int, d: int) -> Fock:
    f = Fock()
    f.state = n
    f.dimensions = d
    f.expansion_level = ExpansionLevel.Label
    return f


def label_resize_ok(n: int, d: int, new: int) -> bool:
    """
    pre: 0 <= n < d <= 64
    pre: -4 <= new <= 80
    post: __return__ == True
    """
    f = _fock(n, d)
    ret = f.resize(new)
    if f.state != n or f.expansion_level is not ExpansionLevel.Label:
        return False
    if new < 1 or new <= n:
        return (not ret) and f.dimensions == d
    return bool(ret) and f.dimensions == new


def label_resize_twice_ok(n: int, d: int, new1: int, new2: int) -> bool:
    """
    pre: 0 <= n < d <= 32
    pre: -2 <= new1 <= 40 and -2 <= new2 <= 40
    post: __return__ == True
    """
    f = _fock(n, d)
    r1 = f.resize(new1)
    d1 = f.dimensions
    r2 = f.resize(new2)
    if f.state != n:
        return False
    ok1 = new1 >= 1 and new1 > n
    want1 = new1 if ok1 else d
    ok2 = new2 >= 1 and new2 > n
    want2 = new2 if ok2 else want1
    return d1 == want1 and f.dimensions == want2 and bool(r1) == ok1 and bool(r2) == ok2


def reachability_twin(n: int, d: int, new: int) -> bool:
    """
    pre: 0 <= n < d <= 64
    pre: -4 <= new <= 80
    post: False
    """
    f = _fock(n, d)
    f.resize(new)
    return True
